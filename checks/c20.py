"""C20 — tests are isolated from each other and results are deterministic.

 1. order / subset / repetition: run_contract over permutations, subsets and duplicates of the test list of
    generated contracts (incl. tests that overwrite storage or block fields set up by setUp, and invariant
    tests); each test's normalised result must equal the result of running it alone;
 2. the post-setUp state is read-only: a wrapper on run_test serialises the setup Exec (storage, balance, code,
    path conditions, block, counters, hash registry) before and after every test;
 3. sibling paths: every path yielded for a generated program is re-executed alone, with a model of the path as
    *concrete* input (no siblings); its outcome must equal the path's own outcome at that model;
 4. uid independence: halmos' uid() is replaced (in every importing module) by seeded generators; results are
    identical across seeds;
 5. process-global singletons: contract A then contract B in one process vs B alone: same results and warnings."""

import itertools
import os
import time
import json
import random
import re

import z3

import report
from report import Run, new_result, run_pool


def _imports():
    global A, testgen, e2e, invgen, hm, diffcore, workloads, symrun, pathmodel
    import artifacts as A
    import diffcore
    import e2e
    import invgen
    import pathmodel
    import symrun
    import testgen
    import workloads
    import halmos.__main__ as hm


UID_RE = re.compile(r"_[0-9a-f]{7}(?=_|\b)")
SETUP_LOG = []
_installed = False


def norm_name(n):
    return UID_RE.sub("_UID", n)


def normalise(r, warns):
    models = []
    for m in r.models or []:
        models.append((m.is_valid, tuple(sorted(norm_name(k) for k in m.model))))
    return dict(exitcode=r.exitcode, paths=tuple(r.num_paths) if r.num_paths else None, bounded=r.num_bounded_loops, nmodels=len(r.models or []),
                models=sorted(models), warnings=sorted({norm_name(w) for w in warns if r.name in w}))


def serialise_exec(ex):
    parts = []
    for a, sd in ex.storage.items():
        parts.append(("storage", str(a), sorted((str(k), v.sexpr() if hasattr(v, "sexpr") else str(v)) for k, v in sd._mapping.items()), sd.symbolic))
    parts.append(("balance", ex.balance.sexpr()))
    parts.append(("code", sorted((str(a), bytes(c._code.unwrap()).hex() if isinstance(c._code.unwrap(), bytes) else str(c._code.unwrap())) for a, c in ex.code.items())))
    parts.append(("conds", [c.sexpr() for c in ex.path.conditions]))
    b = ex.block
    parts.append(("block", [str(getattr(b, f)) for f in ("basefee", "chainid", "coinbase", "difficulty", "gaslimit", "number", "timestamp")]))
    # only the address counter is semantically relevant (it determines created addresses); the symbol / call / gas counters
    # merely number fresh symbol names
    parts.append(("cnts", sorted((str(k), int(v)) for k, v in ex.cnts.items() if k == "address")))
    parts.append(("sha3s", len(list(ex.sha3s))))
    parts.append(("alias", sorted((str(k), str(v)) for k, v in ex.alias.items())))
    return repr(parts)


def install():
    global _installed
    if _installed:
        return
    _installed = True
    orig = hm.run_test

    def run_test(ctx):
        before = serialise_exec(ctx.setup_ex) if ctx.setup_ex is not None else None
        r = orig(ctx)
        if before is not None:
            after = serialise_exec(ctx.setup_ex)
            SETUP_LOG.append((ctx.info.sig, before == after, None if before == after else _first_diff(before, after)))
        return r

    hm.run_test = run_test


def _first_diff(a, b):
    for i, (x, y) in enumerate(zip(a, b)):
        if x != y:
            return dict(at=i, before=a[max(0, i - 120) : i + 120], after=b[max(0, i - 120) : i + 120])
    return dict(at=min(len(a), len(b)), before=a[-200:], after=b[-200:])


def set_uid_seed(seed):
    """replace uid() in every halmos module that imported it by name"""
    import sys

    counter = itertools.count()
    rng = random.Random(seed)
    used = set()

    def uid():
        while True:
            u = "%07x" % rng.getrandbits(28)
            if u not in used:
                used.add(u)
                return u

    for name, mod in list(sys.modules.items()):
        if name.startswith("halmos") and hasattr(mod, "uid") and callable(getattr(mod, "uid")):
            setattr(mod, "uid", uid)


def run_list(spec, sigs, ov, others=()):
    del SETUP_LOG[:]
    out = A.run(A.make_ctx(spec, funsigs=sigs, overrides=ov, others=others))
    return out, list(SETUP_LOG)


def _alone(spec, s, ov):
    out, log = run_list(spec, [s], ov)
    if out.exception or len(out.results) != 1:
        return {"failed": True}
    r2 = new_result()
    check_setup_log(log, r2, -1)
    return {"norm": normalise(out.results[0], out.warnings()), "setup_violations": r2["violations"]}


def _in_child(fn, timeout=600):
    import pickle
    import select

    rd, wr = os.pipe()
    pid = os.fork()
    if pid == 0:
        try:
            os.close(rd)
            data = pickle.dumps(fn())
            with os.fdopen(wr, "wb") as f:
                f.write(data)
        except BaseException:  # noqa
            pass
        finally:
            os._exit(0)
    os.close(wr)
    buf = b""
    t_end = time.time() + timeout
    with os.fdopen(rd, "rb") as f:
        while time.time() < t_end:
            ready, _, _ = select.select([f], [], [], 1.0)
            if ready:
                chunk = os.read(f.fileno(), 1 << 16)
                if not chunk:
                    break
                buf += chunk
    try:
        os.kill(pid, 9)
    except OSError:
        pass
    os.waitpid(pid, 0)
    try:
        return pickle.loads(buf) if buf else None
    except Exception:
        return None


def case_order(seed, idx, res):
    rng = random.Random(f"c20-{seed}-ord-{idx}")
    kinds = ["xor_add", "mul", "storage", "storage2", "disarm", "disarm", "warp_writer", "warp_writer", "time_guard", "time_guard", "two_args", "unsat", "conj3", "bytes_len", "arr_sum", "loop_guard", "nested_assert", "exp", "lit_slot", "hash_touch"]
    spec, setup, tests = testgen.gen_contract(rng, 4, kinds=kinds, symbolic_setup=rng.random() < 0.3)
    k0 = rng.random()
    if k0 < 0.25:
        # a test that hashes a preimage at run time precedes (in some order) a test that addresses the same slot by the hash constant
        tests[0] = testgen.gen_test(rng, 0, kinds=["hash_touch"])
        tests[1] = testgen.gen_test(rng, 1, kinds=["lit_slot"])
        spec = A.ContractSpec("T", [setup] + [t.fn for t in tests] + [t.helper for t in tests if hasattr(t, "helper")])
    elif k0 < 0.35:
        # two tests whose dynamically sized parameter has the same name but a different type (default size candidates are chosen by type)
        tests[0] = testgen.gen_test(rng, 0, kinds=["arr_sum"])
        tests[1] = testgen.gen_test(rng, 1, kinds=["two_dyn"])
        spec = A.ContractSpec("T", [setup] + [t.fn for t in tests] + [t.helper for t in tests if hasattr(t, "helper")])
    elif k0 < 0.65:
        # make sure a writer precedes a reader of the same piece of state in some order
        tests[0] = testgen.gen_test(rng, 0, kinds=["disarm", "warp_writer"])
        tests[1] = testgen.gen_test(rng, 1, kinds=["storage2", "time_guard"] if tests[0].kind == "disarm" else ["time_guard"])
        spec = A.ContractSpec("T", [setup] + [t.fn for t in tests] + [t.helper for t in tests if hasattr(t, "helper")])
    ov = dict(loop=3, solver="yices", solver_timeout_branching=3.0)  # a 1 ms branching timeout makes path counts depend on wall-clock time
    sigs = [t.fn.sig for t in tests]
    alone = {}
    for s in sigs:
        # the baseline of each test is taken in a forked child: whatever a run leaves behind in this process (module-level caches,
        # configuration singletons) cannot reach the in-sequence runs below through the baseline runs
        got = _in_child(lambda s=s: _alone(spec, s, ov))
        if got is None or got.get("failed"):
            res["counters"]["run_failed"] += 1
            return
        alone[s] = got["norm"]
        res["counters"]["baselines_in_fresh_child"] += 1
        for v in got["setup_violations"]:
            res["violations"].append(v)
    res["counters"]["contracts"] += 1
    orders = [sigs, list(reversed(sigs))]
    for _ in range(2):
        o = list(sigs)
        rng.shuffle(o)
        orders.append(o)
    orders.append(rng.sample(sigs, 2))
    orders.append([sigs[0], sigs[0], sigs[1], sigs[0]])
    orders.append([sigs[1], sigs[0], sigs[1]])
    for o in orders:
        out, log = run_list(spec, o, ov)
        res["counters"]["evaluations"] += 1
        res["counters"]["orderings"] += 1
        check_setup_log(log, res, idx)
        if out.exception or len(out.results) != len(o):
            res["violations"].append(dict(what="run_contract failed for an ordering although every test runs alone", key="ordering-crash", index=idx, order=o, exception=(out.exception or "")[-300:]))
            continue
        for s, r in zip(o, out.results):
            n = normalise(r, out.warnings())
            res["counters"]["test_results_compared"] += 1
            if 2 in (n["exitcode"], alone[s]["exitcode"]):
                res["counters"]["order_tests_skipped_solver_timeout"] += 1  # wall-clock effect of the external solver (see case_uid)
                continue
            if n != alone[s]:
                res["violations"].append(dict(what="a test's result depends on which tests ran before it", key="order-dependence", index=idx, order=o, test=s, alone={k: str(v)[:300] for k, v in alone[s].items()},
                                              in_order={k: str(v)[:300] for k, v in n.items()}, kinds=[(t.fn.sig, t.kind) for t in tests]))
                return
    res["distinct"].append(f"ord:{idx}")
    if idx % 13 == 0:
        res["samples"].append(dict(index=idx, tests=[(t.fn.sig, t.kind) for t in tests], orders=orders[:3]))


def check_setup_log(log, res, idx):
    for sig, same, diff in log:
        res["counters"]["setup_state_snapshots"] += 1
        if not same:
            res["violations"].append(dict(what="a test modified the shared post-setUp state", key="setup-state-mutated", index=idx, test=sig, diff=diff))


def case_uid(seed, idx, res):
    rng = random.Random(f"c20-{seed}-uid-{idx}")
    spec, setup, tests = testgen.gen_contract(rng, 3, symbolic_setup=rng.random() < 0.5)
    sigs = [t.fn.sig for t in tests]
    ov = dict(loop=3, solver="yices", solver_timeout_branching=3.0)  # a 1 ms branching timeout makes path counts depend on wall-clock time
    results = []
    for useed in (1, 2, 3):
        set_uid_seed(useed * 7919 + idx)
        out, log = run_list(spec, sigs, ov)
        if out.exception or len(out.results) != len(sigs):
            res["counters"]["run_failed"] += 1
            return
        results.append([normalise(r, out.warnings()) for r in out.results])
    res["counters"]["evaluations"] += 1
    res["counters"]["uid_seed_triples"] += 1
    # a solver time-out (exit code 2) is a wall-clock effect of the external solver, not a property of halmos' result: a test for which
    # any of the three runs timed out is not compared (counted); C05 judges timing independence of the verdict separately
    keep = [j for j in range(len(sigs)) if not any(str(r[j]["exitcode"]) == "2" for r in results)]
    res["counters"]["uid_tests_skipped_solver_timeout"] += len(sigs) - len(keep)
    results = [[r[j] for j in keep] for r in results]
    if not (results[0] == results[1] == results[2]):
        res["violations"].append(dict(what="results depend on the random suffixes of fresh symbol names", key="uid-dependence", index=idx, tests=sigs, results=[[{k: str(v)[:200] for k, v in x.items()} for x in r] for r in results]))
    else:
        res["distinct"].append(f"uid:{idx}")


def case_two_contracts(seed, idx, res):
    rng = random.Random(f"c20-{seed}-two-{idx}")
    specA, setupA, testsA = testgen.gen_contract(rng, 3, name="A")
    specB, setupB, testsB = testgen.gen_contract(rng, 3, name="B", kinds=["loop_guard", "storage", "xor_add", "exp", "arr_loop", "two_args"])
    ov = dict(loop=rng.choice([1, 2]), solver="yices", depth=rng.choice([0, 0, 60]), solver_timeout_branching=3.0)
    outB_alone, _ = run_list(specB, [t.fn.sig for t in testsB], ov)
    outA, _ = run_list(specA, [t.fn.sig for t in testsA], ov)
    outB_after, _ = run_list(specB, [t.fn.sig for t in testsB], ov)
    res["counters"]["evaluations"] += 1
    res["counters"]["contract_pairs"] += 1
    if outB_alone.exception or outB_after.exception:
        res["counters"]["run_failed"] += 1
        return
    a = [normalise(r, outB_alone.warnings()) for r in outB_alone.results]
    b = [normalise(r, outB_after.warnings()) for r in outB_after.results]
    if a != b:
        res["violations"].append(dict(what="a contract's results (or warnings) differ when another contract ran before it in the same process", key="process-global-state", index=idx,
                                      alone=[{k: str(v)[:200] for k, v in x.items()} for x in a], after=[{k: str(v)[:200] for k, v in x.items()} for x in b]))
    else:
        res["distinct"].append(f"two:{idx}")


def case_invariant_order(seed, idx, res):
    rng = random.Random(f"c20-{seed}-inv-{idx}")
    c = invgen.make_invariant_case(rng, depth=rng.choice([1, 2]))
    sigs = [f.sig for f, _ in c.invs]
    if len(sigs) < 2:
        return
    ov = dict(invariant_depth=c.depth, solver_timeout_branching=3.0)
    alone = {}
    for s in sigs:
        out, log = run_list(c.test, [s], ov, others=[c.target])
        if out.exception or len(out.results) != 1:
            res["counters"]["run_failed"] += 1
            return
        alone[s] = (out.results[0].exitcode, len(out.results[0].models or []))
    for o in (sigs, list(reversed(sigs)), [sigs[0], sigs[0]]):
        out, log = run_list(c.test, o, ov, others=[c.target])
        res["counters"]["evaluations"] += 1
        res["counters"]["invariant_orderings"] += 1
        check_setup_log(log, res, idx)
        if out.exception or len(out.results) != len(o):
            continue
        for s, r in zip(o, out.results):
            if (r.exitcode, len(r.models or [])) != alone[s]:
                res["violations"].append(dict(what="an invariant test's verdict depends on the tests that ran before it", key="invariant-order-dependence", index=idx, order=o, test=s,
                                              alone=alone[s], in_order=(r.exitcode, len(r.models or []))))
                return
    res["distinct"].append(f"inv:{idx}")


def case_frontier_isolation(seed, idx, res):
    """the invariant is checked on every frontier state with that state's constraints only: sibling states produced by one transaction carry
    contradicting constraints (x <= T on one, x > T on the other).  Ground truth from the explicit-state oracle of lib/invgen2.py: an invariant
    that some call sequence breaks must FAIL, whichever state is visited first."""
    import invgen2

    rng = random.Random(f"c20-{seed}-frontier-{idx}")
    c = invgen2.make_case(rng, kind=rng.choice(["setter", "setter", "flags", "counter"]), depth=rng.choice([1, 2]), filters={})
    ov = dict(invariant_depth=c.depth, solver_timeout_branching=3.0)
    out = A.run(A.make_ctx(c.test, funsigs=[f.sig for f in c.invs], overrides=ov, others=list(c.others)))
    res["counters"]["evaluations"] += 1
    res["counters"]["frontier_isolation_cases"] += 1
    if out.exception or len(out.results) != len(c.invs):
        res["counters"]["run_failed"] += 1
        return
    orc = invgen2.oracle(c, c.depth, max_nodes=2000)
    for f, r in zip(c.invs, out.results):
        seq = orc["inv"].get(f.sig)
        if seq is not None:
            res["counters"]["frontier_breaks_expected"] += 1
            if r.exitcode == 0 and not out.warnings():
                res["violations"].append(dict(what="an invariant that a call sequence breaks is reported PASS: a frontier state was checked under constraints that belong to another state",
                                              key="frontier-state-contamination", index=idx, test=f.sig, kind=c.kind, depth=c.depth, sequence=[x.describe() for x in seq]))
                return
    res["distinct"].append(f"frontier:{idx}")


def case_siblings(seed, idx, res):
    """every yielded path, re-executed alone with a model of the path as concrete input"""
    rng = random.Random(f"c20-{seed}-sib-{idx}")
    kind = rng.choice(["single", "single", "calls", "creates", "concretize", "twofail", "transient-branch"])
    if kind == "transient-branch":
        # one side of a symbolic branch writes transient (and persistent) storage, both sides then read it: the side explored later must not see
        # the other side's writes
        from asm import asm

        w1 = [0x2A, 1, "TSTORE", 0x2B, 1, "SSTORE"]
        w2 = [7, 2, "TSTORE"] if rng.random() < 0.5 else []
        tail = [1, "TLOAD", 0x200, "MSTORE", 1, "SLOAD", 0x220, "MSTORE", 2, "TLOAD", 0x240, "MSTORE", 0x60, 0x200, "RETURN"]
        # one side writes slot 1 (transient and persistent), the other side only reads it (and may write another slot); both orders
        first, second = (w1, w2) if rng.random() < 0.6 else (w2, w1)
        toks = [4, "CALLDATALOAD", rng.choice([1, 2, 0x80]), "AND", "@odd", "JUMPI"] + first + tail + [":odd"] + second + tail
        case = diffcore.Case({0x1000: asm(toks)}, ncd=2, label="transient-branch", overrides={"storage_layout": rng.choice(["solidity", "generic"])})
        res["counters"]["transient_branch_programs"] += 1
        kind = "custom"
    if kind == "twofail":
        # a callee that fails on two (or three) different paths, a caller that swallows the failure and then counts in persistent and transient
        # storage: every failing path must resume the caller on its own copy of the pre-call state
        from asm import asm

        callee = [4, "CALLDATALOAD", 1, "AND", "@a", "JUMPI", 4, "CALLDATALOAD", 2, "AND", "@b", "JUMPI", 36, "CALLDATALOAD", 7, "EQ", "@c", "JUMPI", 1, 0, "SSTORE", "STOP",
                  ":a", 0, 0, "REVERT", ":b", "INVALID", ":c", 0x11, 0, "MSTORE", 32, 0, "REVERT"]
        op = rng.choice(["CALL", "CALL", "DELEGATECALL"])
        root = [100, 0, 0x300, "CALLDATACOPY", 0, 0, 100, 0x300] + ([0] if op == "CALL" else []) + [0x1100, 0xFFFF, op, 0x200, "MSTORE",
                rng.choice([0, 3]), "SLOAD", 1, "ADD", "DUP1", rng.choice([0, 3]), "SSTORE", 0x220, "MSTORE", 1, "TLOAD", 1, "ADD", "DUP1", 1, "TSTORE", 0x240, "MSTORE", 0x60, 0x200, "RETURN"]
        case = diffcore.Case({0x1000: asm(root), 0x1100: asm(callee)}, ncd=2, label="twofail")
        res["counters"]["callee_with_several_failing_paths_programs"] += 1
        kind = "custom"
    if kind == "concretize":
        # a symbolic word becomes usable as a memory offset / return size only on the path that equated it with a constant;
        # sibling paths must not inherit that knowledge
        from asm import asm

        K = rng.choice([32, 64, 5, 33])
        fill = []
        for off in range(0, 160, 32):
            fill += [("push", rng.getrandbits(256), 32), off, "MSTORE"]
        which = rng.randrange(3)
        if which == 0:
            toks = fill + [4, "CALLDATALOAD", K, "EQ", "ISZERO", "@other", "JUMPI", 4, "CALLDATALOAD", "MLOAD", 0x200, "MSTORE", 32, 0x200, "RETURN",
                           ":other", 4, "CALLDATALOAD", "MLOAD", 0x200, "MSTORE", 32, 0x200, "RETURN"]
        elif which == 1:
            toks = fill + [4, "CALLDATALOAD", K, "EQ", "@eq", "JUMPI", 4, "CALLDATALOAD", 0, "RETURN", ":eq", 4, "CALLDATALOAD", 0, "RETURN"]
        else:
            toks = fill + [4, "CALLDATALOAD", K, "EQ", "@eq", "JUMPI", 36, "CALLDATALOAD", 7, "EQ", "@in", "JUMPI", "STOP", ":in", 4, "CALLDATALOAD", "MLOAD", 0x200, "MSTORE", 32, 0x200, "RETURN",
                           ":eq", 4, "CALLDATALOAD", "MLOAD", 0x200, "MSTORE", 32, 0x200, "RETURN"]
        case = diffcore.Case({0x1000: asm(toks)}, ncd=2, label="concretize")
        res["counters"]["concretization_programs"] += 1
    elif kind != "custom":
        case = workloads.make_case(kind, rng)
    sargs = symrun.make_args(**case.overrides) if getattr(case, "overrides", None) else None
    r = symrun.run_symbolic(case.contracts, target=case.target, ncd=case.ncd, args=sargs)
    if r.crash or r.budget_exceeded or len(r.paths) < 2:
        return
    res["counters"]["evaluations"] += 1
    res["counters"]["branching_programs"] += 1
    ins = [v for v in r.inputs.values()]
    for p in r.paths[:12]:
        models = pathmodel.path_models(p.conds, ins, n=1, rng=rng)
        if not models:
            continue
        byname = {s.decl().name(): v for s, v in models[0].items()}
        inp = diffcore.Input()
        inp.cd = [byname.get(f"in_cd{k}", 0) for k in range(case.ncd)]
        inp.caller, inp.origin, inp.value = byname.get("in_caller", 0x2000), byname.get("in_origin", 0x2000), byname.get("in_value", 0)
        inp.balances = {a: 10**18 for a in list(case.contracts) + [inp.caller]}
        inp.source, inp.cd2 = "sibling", None
        inp.caller2 = inp.origin2 = 0x2002
        inp.value2 = 0
        pn = diffcore.pins_for(r, inp)
        v, keys, vals = diffcore.evaluate_path(p, pn)
        if v != "sat":
            continue
        got = dict(zip(keys, vals))
        solo = symrun.run_symbolic(case.contracts, target=case.target, ncd=case.ncd, args=sargs,
                                   concrete=dict(cd=inp.cd, caller=inp.caller, origin=inp.origin, value=inp.value, balances=inp.balances))
        res["counters"]["sibling_pairs"] += 1
        if solo.crash or len(solo.paths) != 1:
            # concrete re-execution may still fork on unconstrained balances of other accounts; skip those
            res["counters"]["solo_not_single_path"] += 1
            continue
        sp = solo.paths[0]
        if p.stuck:
            # a path that got stuck on a symbolic operand may legitimately complete once the operand is concrete
            res["counters"]["stuck_with_siblings_skipped"] += 1
            continue
        same = (sp.error == p.error) and (sp.stuck == p.stuck)
        if same and not p.stuck:
            so = sp.out if isinstance(sp.out, bytes) else None
            po = got.get("__out")
            pl = got.get("__outlen", 0)
            pob = b"" if po is None else po.to_bytes(pl, "big")
            if so is not None and so != pob:
                same = False
        if not same:
            res["violations"].append(dict(what="a path explored together with its siblings reports a different outcome than the same path explored alone", key="sibling-contamination",
                                          index=idx, case=case.describe(), input=inp.describe(), with_siblings=dict(error=p.error, stuck=p.stuck), alone=dict(error=sp.error, stuck=sp.stuck, errmsg=sp.errmsg)))
            return
    res["distinct"].append(f"sib:{idx}")


def worker(task):
    _imports()
    install()
    kind, lo, hi, seed = task
    res = new_result()
    for idx in range(lo, hi):
        {"ord": case_order, "uid": case_uid, "two": case_two_contracts, "inv": case_invariant_order, "sib": case_siblings, "frontier": case_frontier_isolation}[kind](seed, idx, res)
    return res


def main():
    run = Run("C20", "exploration")
    _imports()
    run.rule = ("generated contracts (incl. tests that overwrite setUp storage / block fields and tests guarded by them, invariant tests) run alone and under 7 orderings/subsets/duplications each; "
                "uid() reseeded three times; contract pairs in one process; every path of branching programs re-executed alone with a concrete model; "
                "non-trivial = distinct contract / program for which all comparisons were carried out")
    run.assumptions = ["the branching solver timeout is raised from 1 ms to 3 s so that path counts do not depend on wall-clock time", "normalisation strips the 7-hex-digit uid suffixes only; counterexample *values* are not compared across orders (solver models may legitimately differ), their number, validity and variables are"]
    if run.replay:
        w = json.load(open(run.replay))["witness"]
        res = new_result()
        install()
        key = w.get("key", "")
        fn = case_frontier_isolation if key == "frontier-state-contamination" else case_siblings if key == "sibling-contamination" else case_uid if key == "uid-dependence" else case_two_contracts if key == "process-global-state" else case_invariant_order if key.startswith("invariant") else case_order
        fn(run.seed, w["index"], res)
        run.merge(res)
        run.finish()
    tasks = []
    for kind, (q, t, step) in dict(ord=(36, 900, 1), uid=(16, 300, 2), two=(12, 300, 2), inv=(10, 200, 2), sib=(120, 2000, 6), frontier=(16, 300, 2)).items():
        n = run.n(q, t)
        tasks += [(kind, lo, min(n, lo + step), run.seed) for lo in range(0, n, step)]
    run_pool(run, worker, tasks, soft_timeout=900)
    run.require("orderings", 100)
    run.require("setup_state_snapshots", 300)
    run.require("uid_seed_triples", 8)
    run.require("contract_pairs", 6)
    run.require("sibling_pairs", 50)
    run.require("frontier_breaks_expected", 8)
    run.finish()


if __name__ == "__main__":
    main()
