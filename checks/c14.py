"""C14 — prank family, state-setting cheatcodes, fresh symbols.

 P. prank histories: straight-line root contracts issuing random sequences of prank / prank(a,o) / startPrank / stopPrank,
    cheatcode and svm calls in between, CALL / STATICCALL to recorder contracts (which report CALLER, ORIGIN and what
    *their* callee sees), to nested prankers (a callee with its own prank), to a callee that forks internally,
    CREATE / CREATE2 (constructor stores CALLER / ORIGIN), value calls, and explicit path forks while a prank is active.
    Everything observed is returned; every concrete input admitted by a path must give the reference (Foundry model) result.
 S. state cheatcodes (deal, store, load, etch, warp, roll, fee, chainId, coinbase, difficulty) with symbolic and concrete
    arguments, followed by reads of the targeted and of other accounts / all block fields, in the frame and in a nested frame.
 T. later transactions: a prank (all four forms) left active by setUp(), or by a target call of an invariant test, must not change the
    CALLER / ORIGIN observed in the following transaction (run_contract on hand-assembled artifacts).
 F. fresh symbols: every svm.create* / vm.random* variant is *called through the real dispatcher* from a generated program and the
    returned term is judged by SMT: range is exactly the requested type (not smaller, not larger), encoding (sign extension,
    left alignment, ABI tuple for bytes/string), (min,max) ranges exact, and independence: for every pair of values created
    on one path (same name, across frames, across a fork, across two transactions) all four corner combinations are satisfiable."""

import json
import random

import z3

import abi
import foundry
import report
from report import Run, new_result, run_pool


def _imports():
    global diffcore, symrun, prankgen, asm, call_raw
    import diffcore
    import prankgen
    import symrun
    from artifacts import call_raw
    from asm import asm


def mk_inputs(rng, case, n):
    ins = []
    interesting = [prankgen.EOA1, prankgen.EOA2, prankgen.REC1, prankgen.REC1, prankgen.REC2, prankgen.REC2, prankgen.FORK, prankgen.ROOT, foundry.HEVM, 0, 1, 2**160 - 1, 2**160 + prankgen.EOA1, 2**256 - 1]
    for _ in range(n):
        i = diffcore.Input()
        i.cd = [rng.choice(interesting) if rng.random() < 0.6 else rng.getrandbits(rng.choice([8, 160, 256])) for _ in range(case.ncd)]
        i.caller, i.origin, i.value = 0x2000, rng.choice([0x2000, 0x2001]), 0
        i.balances = {a: rng.choice([0, 1, 5, 2**64]) for a in case.bal_addrs}
        i.balances[prankgen.ROOT] = rng.choice([0, 3, 10])
        i.source, i.cd2, i.tape = "boundary", None, [0] * 8
        i.caller2 = i.origin2 = 0x2002
        i.value2 = 0
        ins.append(i)
    return ins


def history_case(part, seed, idx, res, tier):
    rng = random.Random(f"c14-{part}-{seed}-{idx}")
    maxlen = 6 if tier == "quick" else 10
    if part == "P":
        case = prankgen.make_prank_case(rng, rng.randrange(2, maxlen + 1))
    else:
        case = prankgen.make_state_case(rng, rng.randrange(1, (4 if tier == "quick" else 6)))
    for f in case.gen_features:
        res["features"][f"{part}:{f}"] += 1
    p = rng.choice([0.0, 0.0, 0.0, 0.3])
    r = diffcore.diff_case(case, rng, res, n_random=0, n_models=2, extra_inputs=mk_inputs(rng, case, 4), unknown_p=p, judge_c01=True, judge_c02=True)
    if r is not None:
        res["counters"][f"{part}_histories"] += 1
        res["distinct"].append(f"{part}:{idx}")
        res["counters"][f"{part}_paths"] += len(r.paths)
        if len(r.paths) > 1:
            res["counters"][f"{part}_forking_histories"] += 1
        if idx % 41 == 0:
            res["samples"].append(dict(part=part, index=idx, features=list(case.gen_features), paths=len(r.paths)))
    for v in res["violations"]:
        v["prop"] = "C14"
        v.setdefault("index", idx)
        v.setdefault("part", part)
        if "features" not in v:
            v["features"] = list(case.gen_features)


# ---------------------------------------------------------------------------------------------- fresh symbols
SVM_SIGS = {
    "uint": ("createUint(uint256,string)", foundry.SVM), "int": ("createInt(uint256,string)", foundry.SVM), "uint256": ("createUint256(string)", foundry.SVM),
    "int256": ("createInt256(string)", foundry.SVM), "bytes": ("createBytes(uint256,string)", foundry.SVM), "string": ("createString(uint256,string)", foundry.SVM),
    "bytes4": ("createBytes4(string)", foundry.SVM), "bytes32": ("createBytes32(string)", foundry.SVM), "address": ("createAddress(string)", foundry.SVM),
    "bool": ("createBool(string)", foundry.SVM), "minmax": ("createUint256(string,uint256,uint256)", foundry.SVM),
    "r-uint256": ("randomUint()", foundry.HEVM), "r-uint": ("randomUint(uint256)", foundry.HEVM), "r-minmax": ("randomUint(uint256,uint256)", foundry.HEVM),
    "r-int256": ("randomInt()", foundry.HEVM), "r-int": ("randomInt(uint256)", foundry.HEVM), "r-address": ("randomAddress()", foundry.HEVM),
    "r-bool": ("randomBool()", foundry.HEVM), "r-bytes": ("randomBytes(uint256)", foundry.HEVM), "r-bytes4": ("randomBytes4()", foundry.HEVM),
    "r-bytes8": ("randomBytes8()", foundry.HEVM),
}


class Req:
    """one request for a fresh value"""

    def __init__(self, rng, kind=None, name=b"x"):
        self.kind = kind or rng.choice(list(SVM_SIGS))
        k = self.kind.replace("r-", "")
        self.base = k
        self.bits = rng.choice([1, 2, 7, 8, 9, 31, 32, 64, 127, 128, 159, 160, 161, 248, 255, 256]) if k in ("uint", "int") else None
        if k in ("uint", "int") and rng.random() < 0.5:
            self.bits = rng.randrange(1, 257)
        self.size = rng.choice([0, 1, 31, 32, 33, 65]) if k in ("bytes", "string") else None
        if k == "minmax":
            a, b = sorted(rng.choice([0, 1, 5, 2**128, 2**255 - 1, 2**255, 2**255 + 5, 2**256 - 2, 2**256 - 1, rng.getrandbits(256)]) for _ in range(2))
            if rng.random() < 0.15:
                b = a
            self.lo, self.hi = a, b
        self.name = name
        sig, self.addr = SVM_SIGS[self.kind]
        types, vals = [], []
        for t in sig[sig.index("(") + 1 : -1].split(","):
            if t == "uint256":
                types.append(("uint", 256))
            elif t == "string":
                types.append(("string",))
        if k in ("uint", "int"):
            vals = [self.bits]
        elif k in ("bytes", "string"):
            vals = [self.size]
        elif k == "minmax":
            vals = [self.lo, self.hi]
        out = []
        vi = iter(vals)
        for t in types:
            out.append(self.name if t == ("string",) else next(vi))
        # createUint256(string,uint256,uint256): the name comes first
        self.data = abi.selector(sig) + abi.encode_tuple(types, out)
        self.retlen = 32 if self.size is None else 64 + self.size

    def describe(self):
        return dict(kind=self.kind, bits=self.bits, size=self.size, lo=getattr(self, "lo", None), hi=getattr(self, "hi", None))

    # judged on the returned bytes `t` (a z3 bit-vector of 8*retlen bits, or shorter / longer -> violation elsewhere)
    def must(self, w):
        """constraints every returned word must satisfy (w: 256-bit term; for bytes/string the data term)"""
        k = self.base
        if k == "uint":
            return z3.ULT(w, z3.BitVecVal(1 << self.bits, 256)) if self.bits < 256 else z3.BoolVal(True)
        if k == "int":
            return w == z3.SignExt(256 - self.bits, z3.Extract(self.bits - 1, 0, w)) if self.bits < 256 else z3.BoolVal(True)
        if k == "bool":
            return z3.ULT(w, 2)
        if k == "address":
            return z3.ULT(w, z3.BitVecVal(1 << 160, 256))
        if k == "bytes4":
            return z3.Extract(223, 0, w) == 0
        if k == "bytes8":
            return z3.Extract(191, 0, w) == 0
        if k == "minmax":
            return z3.And(z3.UGE(w, z3.BitVecVal(self.lo, 256)), z3.ULE(w, z3.BitVecVal(self.hi, 256)))
        return z3.BoolVal(True)

    def corners(self):
        """values that must be achievable"""
        k = self.base
        M = 2**256
        if k == "uint":
            return [0, (1 << self.bits) - 1, 1 << (self.bits - 1)]
        if k == "int":
            return [0, (1 << (self.bits - 1)) - 1, (M - (1 << (self.bits - 1))) % M, M - 1]
        if k in ("uint256", "int256", "bytes32"):
            return [0, M - 1, 1 << 255]
        if k == "bool":
            return [0, 1]
        if k == "address":
            return [0, (1 << 160) - 1]
        if k == "bytes4":
            return [0, 0xFFFFFFFF << 224, 1 << 224]
        if k == "bytes8":
            return [0, (2**64 - 1) << 192, 1 << 192]
        if k == "minmax":
            return sorted({self.lo, self.hi, (self.lo + self.hi) // 2})
        if k in ("bytes", "string"):
            n = self.size
            return [0, (1 << (8 * n)) - 1] if n else [None]
        raise KeyError(k)


def fresh_program(rng, reqs, shape):
    """returns (case contracts, layout): the root requests the values and returns them concatenated"""
    OUT = 0x2000
    toks = []
    off = 0
    layout = []

    def request(rq, frame_toks):
        nonlocal off
        frame_toks += call_raw(rq.addr, rq.data, mem=0x300, ret=0x800, ret_size=0) + ["POP"]
        frame_toks += ["RETURNDATASIZE", 0, OUT + off, "RETURNDATACOPY", "RETURNDATASIZE", OUT + 0x1000 + 32 * len(layout), "MSTORE"]
        layout.append((rq, off))
        off += rq.retlen + 32  # slack so that an over-long answer does not overlap silently

    contracts = {}
    if shape == "fork":
        request(reqs[0], toks)
        toks += [4, "CALLDATALOAD", 1, "AND", "@f", "JUMPI", ":f"]
        for rq in reqs[1:]:
            request(rq, toks)
    elif shape == "nested":
        # the second value is created by a callee and handed back
        request(reqs[0], toks)
        sub = []
        sub += call_raw(reqs[1].addr, reqs[1].data, mem=0x300, ret=0x800, ret_size=0) + ["POP", "RETURNDATASIZE", 0, 0, "RETURNDATACOPY", "RETURNDATASIZE", 0, "RETURN"]
        contracts[0x1100] = asm(sub)
        toks += [0, 0, 0, 0, 0, 0x1100, 0xFFFF, "CALL", "POP", "RETURNDATASIZE", 0, OUT + off, "RETURNDATACOPY", "RETURNDATASIZE", OUT + 0x1000 + 32 * len(layout), "MSTORE"]
        layout.append((reqs[1], off))
        off += reqs[1].retlen + 32
        for rq in reqs[2:]:
            request(rq, toks)
    else:
        for rq in reqs:
            request(rq, toks)
    total = off
    # lengths area is returned too: [values area (total bytes)] ++ [n length words]
    for i in range(len(layout)):
        toks += [OUT + 0x1000 + 32 * i, "MLOAD", OUT + total + 32 * i, "MSTORE"]
    toks += [total + 32 * len(layout), OUT, "RETURN"]
    contracts[0x1000] = asm(toks)
    return contracts, layout, total


def term_bytes(out, lo, n):
    """bytes [lo, lo+n) of a z3 bit-vector / bytes value as a z3 term of 8n bits"""
    if isinstance(out, bytes):
        return z3.BitVecVal(int.from_bytes(out[lo : lo + n], "big"), 8 * n)
    tot = out.size() // 8
    return z3.simplify(z3.Extract(8 * (tot - lo) - 1, 8 * (tot - lo - n), out))


def fresh_case(seed, idx, res):
    rng = random.Random(f"c14-F-{seed}-{idx}")
    shape = rng.choice(["single", "pair", "pair", "fork", "nested", "triple", "twotx"])
    n = {"single": 1, "pair": 2, "fork": 2, "nested": 2, "triple": 3, "twotx": 2}[shape]
    same_name = rng.random() < 0.6
    first = Req(rng)
    reqs = [first]
    for j in range(1, n):
        rq = Req(rng, kind=first.kind if rng.random() < 0.5 else None, name=b"x" if same_name else b"y%d" % j)
        if rq.kind == first.kind and rng.random() < 0.7:
            rq = first.__class__.__new__(Req)
            rq.__dict__.update(first.__dict__)
        reqs.append(rq)
    wit = dict(index=idx, part="F", shape=shape, requests=[r.describe() for r in reqs])
    res["counters"]["evaluations"] += 1
    for r in reqs:
        res["features"]["F:kind:" + r.kind] += 1
        if r.bits:
            res["features"][f"F:bits:{r.bits}"] += 1
        if r.size is not None:
            res["features"][f"F:size:{r.size}"] += 1
    res["features"]["F:shape:" + shape] += 1
    if shape == "twotx":
        # each transaction creates a value, returns [new value, value created by the previous transaction] and keeps the new one in storage
        word_kinds = [k for k in SVM_SIGS if k.replace("r-", "") not in ("bytes", "string")]
        rq = Req(rng, kind=rng.choice(word_kinds))
        reqs = [rq, rq]
        wit["requests"] = [rq.describe()] * 2
        OUT = 0x2000
        toks = call_raw(rq.addr, rq.data, mem=0x300, ret=OUT, ret_size=32) + ["POP", 0, "SLOAD", OUT + 64, "MSTORE", OUT, "MLOAD", 0, "SSTORE",
                                                                           32, OUT + 128, "MSTORE", 32, OUT + 160, "MSTORE", 192, OUT, "RETURN"]
        contracts, layout, total = {0x1000: asm(toks)}, [(rq, 0), (rq, 64)], 128
        r = symrun.run_symbolic(contracts, 0x1000, ncd=1, second_tx=(0x1000, 1), keep_ex=True)
    else:
        contracts, layout, total = fresh_program(rng, reqs, shape)
        r = symrun.run_symbolic(contracts, 0x1000, ncd=1, keep_ex=True)
    ok_paths = [p for p in r.paths if p.error is None and not p.stuck and p.out is not None]
    if not ok_paths:
        # min > max is refused explicitly; anything else is unexpected
        res["counters"]["F_no_normal_path"] += 1
        if not any(q.base == "minmax" and q.lo > q.hi for q in reqs):
            res["violations"].append(dict(what="a well-formed create*/random* request produced no normal path", key="fresh-no-path:" + reqs[0].kind, paths=[dict(error=p.error, msg=p.errmsg) for p in r.paths][:5], **wit))
        return
    for p in ok_paths:
        out = p.out
        outlen = len(out) if isinstance(out, bytes) else out.size() // 8
        if outlen != total + 32 * len(layout):
            res["violations"].append(dict(what="unexpected output length from the harness program", key="fresh-harness", got=outlen, **wit))
            return
        vals = []
        for i, (rq, off) in enumerate(layout):
            rlen_t = term_bytes(out, total + 32 * i, 32)
            rlen = z3.simplify(rlen_t)
            if not z3.is_bv_value(rlen):
                res["violations"].append(dict(what="symbolic return data size", key="fresh-retsize", **wit))
                return
            rlen = rlen.as_long()
            res["counters"]["F_values"] += 1
            if rq.size is None:
                if rlen != 32:
                    res["violations"].append(dict(what="a word-typed create*/random* call did not return exactly 32 bytes", key="fresh-width:" + rq.kind, returned=rlen, **wit))
                    continue
                w = term_bytes(out, off, 32)
                vals.append((rq, w))
            else:
                # ABI tuple (bytes): offset 32, length n, n data bytes (padding, if any, zero)
                if rlen < 64 + rq.size:
                    res["violations"].append(dict(what="bytes/string answer shorter than its ABI encoding", key="fresh-width:" + rq.kind, returned=rlen, **wit))
                    continue
                head = z3.simplify(term_bytes(out, off, 32))
                ln = z3.simplify(term_bytes(out, off + 32, 32))
                if not (z3.is_bv_value(head) and head.as_long() == 32 and z3.is_bv_value(ln) and ln.as_long() == rq.size):
                    res["violations"].append(dict(what="bytes/string answer: wrong ABI head (offset / length)", key="fresh-abi-head:" + rq.kind, head=str(head), length=str(ln), **wit))
                    continue
                if rlen > 64 + rq.size and rlen <= rq.retlen + 32:
                    pad = z3.simplify(term_bytes(out, off + 64 + rq.size, rlen - 64 - rq.size))
                    if not (z3.is_bv_value(pad) and pad.as_long() == 0):
                        res["violations"].append(dict(what="bytes/string answer: non-zero padding", key="fresh-abi-pad:" + rq.kind, **wit))
                if rq.size:
                    vals.append((rq, term_bytes(out, off + 64, rq.size)))
        conds = list(p.conds)
        def sat(extra):
            s = z3.Solver()
            s.set(timeout=10000)
            s.add(*conds)
            s.add(*extra)
            return s.check()
        for rq, w in vals:
            res["counters"]["F_smt_obligations"] += 1
            # range never exceeded
            if rq.size is None:
                r1 = sat([z3.Not(rq.must(w))])
                if r1 == z3.sat:
                    res["violations"].append(dict(what="a created value can lie outside its requested type / range (width, sign extension, alignment, min/max)", key="fresh-range-exceeded:" + rq.kind, term=str(w)[:200], **wit))
                    continue
                if r1 == z3.unknown:
                    res["counters"]["F_smt_timeouts"] += 1
            # every value of the range achievable
            for c in rq.corners():
                if c is None:
                    continue
                r2 = sat([w == z3.BitVecVal(c, w.size())])
                if r2 == z3.unsat:
                    res["violations"].append(dict(what="a value of the requested range cannot be taken by the created symbol", key="fresh-range-missing:" + rq.kind, value=hex(c), term=str(w)[:200], **wit))
                    break
                if r2 == z3.unknown:
                    res["counters"]["F_smt_timeouts"] += 1
            else:
                res["counters"]["F_ranges_exact"] += 1
        # independence: all corner combinations of every pair
        for a in range(len(vals)):
            for b in range(a + 1, len(vals)):
                (qa, wa), (qb, wb) = vals[a], vals[b]
                ca = [c for c in qa.corners() if c is not None]
                cb = [c for c in qb.corners() if c is not None]
                combos = [(x, y) for x in (ca[0], ca[-1]) for y in (cb[0], cb[-1])]
                if len({x for x, _ in combos}) < 2 and len({y for _, y in combos}) < 2:
                    continue
                res["counters"]["F_pairs"] += 1
                bad = None
                for x, y in combos:
                    if sat([wa == z3.BitVecVal(x, wa.size()), wb == z3.BitVecVal(y, wb.size())]) == z3.unsat:
                        bad = (x, y)
                        break
                if bad:
                    res["violations"].append(dict(what="two created values are not independent (a corner combination is unsatisfiable)", key=f"fresh-dependent:{shape}", combo=[hex(bad[0]), hex(bad[1])],
                                                  terms=[str(wa)[:120], str(wb)[:120]], **wit))
                else:
                    res["counters"]["F_pairs_independent"] += 1
                    res["counters"]["F_pairs_independent:" + shape] += 1
    res["distinct"].append(f"F:{idx}")


# ---------------------------------------------------------------------------------------------- later transactions
def tx_case(seed, idx, res):
    """a prank left active at the end of a transaction (setUp, or a target call of an invariant test) must not change the sender seen in a
    later transaction: run_contract on hand-assembled artifacts; the observer whoami() reports CALLER"""
    import artifacts as A
    import invgen
    from artifacts import Fn, arg, panic

    rng = random.Random(f"c14-T-{seed}-{idx}")
    U = ("uint", 256)
    form = rng.choice(["prank(address)", "prank(address,address)", "startPrank(address)", "startPrank(address,address)"])
    who = [("push", rng.choice([0xBEEF, 0xCAFE, foundry.CALLER]), 20)]
    prank = A.vm(form, who, who) if form.count("address") == 2 else A.vm(form, who)
    mode = rng.choice(["setup", "invariant"])
    res["features"][f"T:{mode}:{form}"] += 1
    res["counters"]["evaluations"] += 1
    whoami = Fn("whoami", [], ["CALLER", 0, "MSTORE", "ORIGIN", 32, "MSTORE", 64, 0, "RETURN"], mutability="view", outputs=[U, U])
    call_self = lambda addr_toks: [("push", int.from_bytes(whoami.selector, "big") << 224, 32), 0x300, "MSTORE", 64, 0x500, 4, 0x300, 0] + addr_toks + [0xFFFF, "CALL", "POP"]
    if mode == "setup":
        # setUp leaves a prank open; the test calls this.whoami(): the caller must be this contract, the origin the default origin
        setup = Fn("setUp", [], prank + ["STOP"])
        body = call_self(["ADDRESS"]) + [0x500, "MLOAD", "ADDRESS", "EQ", "ISZERO", "@bad", "JUMPI", 0x520, "MLOAD", ("push", foundry.CALLER, 20), "EQ", "ISZERO", "@bad", "JUMPI", "STOP", ":bad"] + panic(1)
        test = Fn("check_sender", [], body)
        spec = A.ContractSpec("T", [setup, test, whoami])
        out = A.run(A.make_ctx(spec, funsigs=[test.sig]))
        want = 1
    else:
        # a target function leaves a prank open in its own transaction; the invariant (a later transaction) asks the target who calls it
        target = A.ContractSpec("Target", [Fn("poke", [], prank + [1, 0, "SSTORE", "STOP"]), whoami, Fn("poked", [], [0, "SLOAD", 0, "MSTORE", 32, 0, "RETURN"], mutability="view", outputs=[U])])
        init = target.creation()
        st = []
        padded = init + bytes((-len(init)) % 32)
        for i in range(0, len(padded), 32):
            st += [("push", int.from_bytes(padded[i : i + 32], "big"), 32), 0x400 + i, "MSTORE"]
        st += [len(init), 0x400, 0, "CREATE", 0, "SSTORE", "STOP"]
        setup = Fn("setUp", [], st)
        tgt = [("push", invgen.TARGET0, 20)]
        body = call_self(tgt) + [0x500, "MLOAD", "ADDRESS", "EQ", "ISZERO", "@bad", "JUMPI", "STOP", ":bad"] + panic(1)
        inv = Fn("invariant_sender", [], body)
        spec = A.ContractSpec("InvT", [setup, inv], filename="InvT.sol")
        out = A.run(A.make_ctx(spec, funsigs=[inv.sig], overrides=dict(invariant_depth=2), others=[target]))
        want = 1
    if out.exception or len(out.results) != want:
        res["counters"]["T_run_failed"] += 1
        res["samples"].append(dict(part="T", index=idx, mode=mode, form=form, failed=(out.exception or "")[-300:], warnings=out.warnings()[:3]))
        return
    r = out.results[0]
    res["counters"]["T_cases"] += 1
    res["counters"][f"T_verdict_{r.exitcode}"] += 1
    if r.exitcode == 1:
        res["violations"].append(dict(what="a prank left active at the end of a transaction changed the sender / origin seen in a later transaction", key=f"prank-across-transactions:{mode}",
                                      part="T", index=idx, mode=mode, form=form, prop="C14"))
    elif r.exitcode == 0:
        res["distinct"].append(f"T:{idx}")


def worker(task):
    _imports()
    part, lo, hi, seed, tier = task
    res = new_result()
    for idx in range(lo, hi):
        if part == "T":
            tx_case(seed, idx, res)
            continue
        if part == "F":
            try:
                fresh_case(seed, idx, res)
            except symrun.StepBudgetExceeded:
                res["counters"]["F_step_budget"] += 1
        else:
            history_case(part, seed, idx, res, tier)
    return res


def main():
    run = Run("C14", "exploration")
    _imports()
    run.rule = ("prank histories (prank/startPrank/stopPrank 1- and 2-address forms, cheatcode calls in between, CALL/STATICCALL/CREATE/CREATE2/value calls, nested prankers, forking callee, forks while a prank "
                "is active) and state-cheatcode programs compared input-by-input with the Foundry reference model; every svm.create*/vm.random* variant called through the dispatcher and judged by SMT "
                "(exact range, encoding, pairwise independence); non-trivial = distinct generated history / request tuple")
    run.assumptions = ["DELEGATECALL/CALLCODE and console calls under an active prank, startPrank left open by a callee, and prank-while-active are not generated (ambiguous in Foundry)",
                       "bytes/string answers are judged as a Solidity decoder sees them (offset, length, data; trailing padding optional but zero if present)"]
    if run.replay:
        w = json.load(open(run.replay))["witness"]
        res = new_result()
        if w.get("part") == "T":
            tx_case(run.seed, int(w["index"]), res)
        elif w.get("part") == "F":
            fresh_case(run.seed, int(w["index"]), res)
        else:
            history_case(w.get("part", "P"), run.seed, int(w["index"]), res, run.tier)
        run.merge(res)
        run.finish()
    nP, nS, nF = run.n(400, 8000), run.n(300, 6000), run.n(600, 12000)
    tasks = []
    for part, n, step in (("P", nP, 10), ("S", nS, 10), ("F", nF, 20), ("T", run.n(24, 300), 3)):
        tasks += [(part, lo, min(n, lo + step), run.seed, run.tier) for lo in range(0, n, step)]
    run_pool(run, worker, tasks, soft_timeout=900)
    run.require("P_histories", 200)
    run.require("S_histories", 150)
    run.require("P_forking_histories", 30)
    run.require("F_values", 500)
    run.require("F_ranges_exact", 400)
    run.require("F_pairs_independent", 150)
    run.require("path_input_pairs", 1500)
    run.require("T_verdict_0", 16)
    run.finish()


if __name__ == "__main__":
    main()
