"""C01 — every reported execution path is a real EVM behaviour.

For generated programs every path SEVM.run yields is compared, at several concrete inputs the
path admits (path models, boundary and random inputs), with the reference EVM: status class,
return/revert data, storage and transient slots, balances, code of created accounts and logs.
(The coverage obligation of C02 is *not* judged here.)"""

import json
import random

import report
from report import Run, new_result, run_pool


def _imports():
    global diffcore, gen, workloads
    import diffcore
    import gen
    import workloads


def worker(task):
    _imports()
    kind, lo, hi, seed, tier = task
    res = new_result()
    for idx in range(lo, hi):
        rng = random.Random(f"c01-{seed}-{kind}-{idx}")
        case = workloads.make_case(kind, rng)
        res["features"]["workload:" + kind] += 1
        for f in case.gen_features:
            res["features"]["gen:" + f] += 1
        r = diffcore.diff_case(case, rng, res, n_random=4, n_models=2, judge_c01=True, judge_c02=False)
        if idx % 97 == 0 and r is not None:
            res["samples"].append(dict(workload=kind, index=idx, code={hex(a): c.hex()[:400] for a, c in case.contracts.items()}, paths=len(r.paths)))
    res["violations"] = [dict(v, task=[kind, idx_of(v), seed]) for v in res["violations"] if v.get("prop") == "C01"]
    return res


def idx_of(v):
    return v.get("index")


def main():
    run = Run("C01", "exploration")
    _imports()
    run.rule = ("generated EVM programs (single contract, call trees, creations, two transactions; both storage layouts) run through SEVM.run; every (path, admitted input) pair is "
                "compared with the reference EVM; non-trivial = distinct program (bytecode hash) with >= 2 reported paths or a nested frame")
    run.assumptions = ["no gas; memory > 2^20 = out of gas", "balances <= 2^128, hash range/injectivity", "created addresses taken from the halmos trace (abstract)",
                       "arithmetic abstractions read exactly; keccak = real keccak", "all exceptional halts are one outcome class",
                       "cases whose reference trace contains the trigger of a known finding are skipped (dedicated probes cover them)"]
    if run.replay:
        w = json.load(open(run.replay))["witness"]
        res = new_result()
        case = diffcore.Case({int(a, 16): bytes.fromhex(c) for a, c in w["case"]["contracts"].items()}, target=int(w["case"]["target"], 16), ncd=w["case"]["ncd"],
                             overrides=w["case"].get("overrides_raw") or {}, second_tx=tuple(w["case"]["second_tx"]) if w["case"].get("second_tx") else None)
        inp = diffcore.Input()
        i = w["input"]
        inp.cd = [int(x, 16) for x in i["cd"]]
        inp.caller, inp.origin, inp.value = int(i["caller"], 16), int(i["origin"], 16), int(i["value"], 16)
        inp.balances = {int(k, 16): int(v, 16) for k, v in i["balances"].items()}
        inp.source = "replay"
        inp.cd2 = [int(x, 16) for x in i.get("cd2") or []] or None
        inp.caller2, inp.origin2, inp.value2 = 0x2002, 0x2002, 0
        diffcore.diff_case(case, random.Random(0), res, n_random=0, n_models=0, extra_inputs=[inp], judge_c02=False)
        run.merge(res)
        run.finish()
    import workloads as wl

    probes = wl.run_probes("C01")
    for mech, msg in probes:
        run.count("probes_run")
        if msg:
            run.known_finding(mech, msg)
    tasks = []
    for kind, (q, t) in wl.C01_MIX.items():
        n = run.n(q, t)
        step = 8
        tasks += [(kind, lo, min(n, lo + step), run.seed, run.tier) for lo in range(0, n, step)]
    random.Random(run.seed).shuffle(tasks)
    run_pool(run, worker, tasks, soft_timeout=600)
    run.require("path_input_pairs", 500)
    run.require("path_model_pairs", 100)
    run.require("storage_slots_compared", 500)
    run.finish()


if __name__ == "__main__":
    main()
