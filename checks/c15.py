"""C15 — invariant testing covers every bounded call sequence.

Generated cases (lib/invgen2): one or two target contracts CREATEd by setUp (counter / flags / owner / store-before-branch
setter / timestamp clock / payable vault / array-argument), invariant_* functions, the six target*/exclude* getters with
random contents (incl. repeated FuzzSelector entries for one contract), invariant_depth 0..3.  run_contract is run on the
hand-assembled artifacts with monitors installed:

  R. reachability (one direction): an explicit-state breadth-first oracle on the reference EVM (admissible functions and senders
     by an independent resolution of the filter rules; call values; timestamp steps) finds a sequence of <= depth calls
     breaking an invariant  =>  halmos must report FAIL for it; it finds a sequence ending in a target assertion =>
     halmos must report that assertion (probe).
  C. every counterexample halmos reports (monitor on CounterexampleHandler._solve_end_to_end_callback: Exec + model) is
     concretised (call data, sender, origin, value of every call of ex.call_sequence; timestamps from the model) and
     replayed on the reference EVM: every call must be admissible under the filters, must succeed, timestamps must be
     non-decreasing, length <= depth, and the invariant / target assertion must actually break.
  F. filter monitor on run_target_function: from every frontier state exactly the admissible (contract, function) pairs are
     executed, and the sender constraint admits exactly the admissible senders.
  M. merging monitor on get_state_id: a digest that was seen before must belong to an identical state (storage terms,
     balance term, code, state-related path conditions) by an independent canonical serialisation."""

import json
import random
import threading
import time

import z3

import abi
import foundry
import report
from report import Run, new_result, run_pool


class Rec:
    def __init__(self):
        self.reset()

    def reset(self):
        self.targets = []  # (pre-state id, addr, sig, msg_sender, cond)
        self.states = {}  # digest -> serialisation
        self.state_events = []
        self.cex = []  # dict(is_probe, test, path_id, ex, output)
        self.futures = []
        self.current = None
        self.lock = threading.Lock()


REC = Rec()
_installed = False


def canonical(ex):
    st = []
    for a, sd in ex.storage.items():
        st.append((str(a), bool(sd.symbolic), tuple((str(k), v.sexpr()) for k, v in sd._mapping.items())))
    code = []
    for a, c in ex.code.items():
        try:
            raw = c._code.unwrap()
            code.append((str(a), raw.hex() if isinstance(raw, bytes) else raw.sexpr()))
        except Exception as e:  # noqa
            code.append((str(a), "?" + type(e).__name__))
    sliced = ex.path.sliced or set()
    conds = tuple(c.sexpr() for i, c in enumerate(ex.path.conditions) if i in sliced)
    return (tuple(st), ex.balance.sexpr(), tuple(code), conds)


def install():
    global _installed, hm
    import halmos.__main__ as hm

    if _installed:
        return
    _installed = True
    orig_rtf = hm.run_target_function

    orig_rtc = hm.run_target_contract

    def rtc(ctx, ex, addr):
        # the six filter getters are executed through run_target_function as well: only calls made on behalf of
        # run_target_contract are target calls
        REC.current = id(ex)
        try:
            for post in orig_rtc(ctx, ex, addr):
                yield post
                REC.current = id(ex)
        finally:
            REC.current = None

    hm.run_target_contract = rtc

    def rtf(args, ex, addr, abi_, fun_info, tx_origin, msg_sender, msg_value, msg_sender_cond=None):
        if REC.current is not None:
            REC.targets.append((id(ex), addr.as_long() if z3.is_bv_value(addr) else str(addr), fun_info.sig, msg_sender, msg_sender_cond))
        yield from orig_rtf(args, ex, addr, abi_, fun_info, tx_origin, msg_sender, msg_value, msg_sender_cond)

    hm.run_target_function = rtf
    orig_gsi = hm.get_state_id

    def gsi(ex):
        d = orig_gsi(ex)
        ser = canonical(ex)
        prev = REC.states.get(d)
        if prev is None:
            REC.states[d] = ser
            REC.state_events.append(("new", d))
        elif prev == ser:
            REC.state_events.append(("hit-identical", d))
        else:
            REC.state_events.append(("hit-different", d, prev, ser))
        return d

    hm.get_state_id = gsi
    H = hm.CounterexampleHandler
    orig_cb = H._solve_end_to_end_callback

    def cb(self, future, ex, path_ctx, description):
        orig_cb(self, future, ex=ex, path_ctx=path_ctx, description=description)
        so = next((s for s in reversed(self.ctx.solver_outputs) if s.path_id == path_ctx.path_id), None)
        with REC.lock:
            REC.cex.append(dict(is_probe=self.is_probe, test=self.ctx.info.sig, path_id=path_ctx.path_id, ex=ex, output=so, description=description))

    H._solve_end_to_end_callback = cb
    orig_hav = H.handle_assertion_violation

    def hav(self, *a, **k):
        n = len(self.submitted_futures)
        try:
            return orig_hav(self, *a, **k)
        finally:
            REC.futures.extend(self.submitted_futures[n:])

    H.handle_assertion_violation = hav


def _imports():
    global A, invgen2, pathmodel, symrun
    import artifacts as A
    import invgen2
    import pathmodel
    import symrun


def concretise(term, model):
    """value of a z3 term / int / bytes under name -> int (missing names: 0); None if it does not fold to a value"""
    if isinstance(term, (int, bytes)):
        return term
    if hasattr(term, "as_z3"):
        term = term.as_z3()
    subs = []
    for v in pathmodel.free_consts([term]):
        if z3.is_bv(v):
            subs.append((v, z3.BitVecVal(model.get(str(v), 0), v.size())))
    t = z3.simplify(z3.substitute(term, *subs)) if subs else z3.simplify(term)
    return t.as_long() if z3.is_bv_value(t) else None


def model_dict(so):
    if so is None or so.model is None:
        return None
    return {k: v.value for k, v in so.model.model.items()}


def extract_sequence(ex, model):
    """-> list of dict(to, sender, origin, value, data) or None"""
    seq = []
    for call in ex.call_sequence:
        m = call.message
        data = m.data.unwrap() if hasattr(m.data, "unwrap") else m.data
        if not isinstance(data, bytes):
            n = data.size() // 8
            v = concretise(data, model)
            if v is None:
                return None
            data = v.to_bytes(n, "big")
        item = dict(to=concretise(m.target, model), sender=concretise(m.caller, model), origin=concretise(m.origin, model), value=concretise(m.value, model), data=data)
        if any(x is None for x in item.values()):
            return None
        seq.append(item)
    return seq


def timestamps(model, n):
    """T_0 = 1; T_k from halmos_block_timestamp_depth{k}_* if the model has it, else T_{k-1}"""
    ts = [1]
    for k in range(1, n + 1):
        v = next((val for name, val in model.items() if name.startswith(f"halmos_block_timestamp_depth{k}_")), None)
        ts.append(v if v is not None else ts[-1])
    return ts


def replay_cex(c, cex, res, wit):
    model = model_dict(cex["output"])
    if model is None:
        return
    so = cex["output"]
    if not so.model.is_valid:
        res["counters"]["cex_invalid_not_replayed"] += 1
        return
    ex = cex["ex"]
    seq = extract_sequence(ex, model)
    res["counters"]["cex_reported"] += 1
    if seq is None:
        res["counters"]["cex_not_concretisable"] += 1
        return
    w = dict(wit, test=cex["test"], probe=cex["is_probe"], model={k: hex(v) for k, v in list(model.items())[:12]},
             sequence=[dict(to=hex(s["to"]), sender=hex(s["sender"]), value=hex(s["value"]), data=s["data"].hex()[:200]) for s in seq])
    if len(seq) > c.depth:
        res["violations"].append(dict(what="a reported call sequence is longer than invariant_depth", key="cex-too-long", **w))
        return
    ts = timestamps(model, len(seq))
    if any(b < a for a, b in zip(ts, ts[1:])):
        res["violations"].append(dict(what="a reported counterexample needs a decreasing block timestamp", key="cex-timestamp-decreasing", timestamps=ts, **w))
        return
    fns, pred, _ = invgen2.allowed(c)
    okfn = {(a, f.selector) for a, f in fns}
    sw = invgen2.start_world(c)
    if sw is None:
        return
    W, ev = sw
    last = None
    for i, s in enumerate(seq):
        dyn_spec = c.dynamic.get(bytes(W.get(s["to"]).code)) if getattr(c, "dynamic", None) and s["to"] in W.acc and W.get(s["to"]).code else None
        dyn_ok = dyn_spec is not None and any(f.selector == s["data"][:4] and f.mutability not in ("view", "pure") for f in dyn_spec.fns)
        if (s["to"], s["data"][:4]) not in okfn and not dyn_ok:
            res["violations"].append(dict(what="a reported call sequence calls a function that the target/exclude filters do not admit", key="cex-inadmissible-function", call=i, **w))
            return
        if not pred(s["sender"]):
            res["violations"].append(dict(what="a reported call sequence uses a sender that the target/exclude sender filters do not admit", key="cex-inadmissible-sender", call=i, **w))
            return
        last = invgen2.apply_raw(W, ev, s["to"], s["sender"], s["origin"], s["value"], s["data"], ts[i])
        final = i == len(seq) - 1
        if not last[0] and not (final and cex["is_probe"]):
            res["violations"].append(dict(what="a reported call sequence does not replay: an intermediate call reverts on the reference EVM", key="cex-sequence-reverts", call=i, result=str(last[2]), **w))
            return
    if cex["is_probe"]:
        if last is None or not (invgen2.is_panic1(*last) or last[2] == "test-failed"):
            res["violations"].append(dict(what="a reported target-assertion counterexample does not hit the assertion on the reference EVM", key="cex-probe-not-reproduced", **w))
            return
    else:
        broken = invgen2.check_invariants(c, W, ev, ts[len(seq)])
        if cex["test"] not in broken:
            res["violations"].append(dict(what="a reported invariant counterexample does not break the invariant on the reference EVM", key="cex-invariant-not-reproduced", broken=broken, timestamps=ts, **w))
            return
    res["counters"]["cex_replayed_ok"] += 1
    res["counters"][f"cex_replayed_len{len(seq)}"] += 1


INCOMPLETE = ("loop unrolling bound", "incomplete", "--width", "--depth", "unsupported", "Unsupported", "timeout", "unknown")


def one_case(seed, idx, res, kind=None):
    rng = random.Random(f"c15-{seed}-{idx}")
    c = invgen2.make_case(rng, kind=kind)
    wit = dict(index=idx, kind=c.kind, aux=bool(c.aux), depth=c.depth, filters={k: [hex(x) if isinstance(x, int) else (hex(x[0]), [s.hex() for s in x[1]]) for x in v] for k, v in c.filters.items()})
    res["features"]["kind:" + c.kind] += 1
    res["features"][f"depth:{c.depth}"] += 1
    res["features"]["aux:" + str(bool(c.aux))] += 1
    for k in c.filters:
        res["features"]["filter:" + k] += 1
    res["features"]["filters:" + ("+".join(sorted(c.filters)) or "none")] += 1
    for key in ("targetSelectors", "excludeSelectors"):
        ents = c.filters.get(key, [])
        if len({a for a, _ in ents}) < len(ents):
            res["features"]["repeated-entries:" + key] += 1
    REC.reset()
    others = list(c.others) if getattr(c, "others", None) is not None else ([c.target] + ([c.aux] if c.aux else []))
    # the branching solver sometimes answers `unknown` (as its 1 ms time limit makes it do on hard constraints): infeasible sequences then reach
    # the assertion solver, which answers unsat for them; that must not stop feasible ones from being reported
    up = rng.choice([0.0, 0.0, 0.0, 0.5, 1.0])
    res["features"][f"branching-unknown-p={up}"] += 1
    symrun.MON.unknown_p, symrun.MON.unknown_rng = up, random.Random(idx)
    try:
        out = A.run(A.make_ctx(c.test, funsigs=[f.sig for f in c.invs], overrides=dict(invariant_depth=c.depth), others=others))
    finally:
        symrun.MON.unknown_p = 0.0
    # probes are solved asynchronously and nobody waits for them
    deadline = time.time() + 60
    for fut in list(REC.futures):
        try:
            fut.result(timeout=max(0.1, deadline - time.time()))
        except Exception:  # noqa
            pass
    t_end = time.time() + 5
    while time.time() < t_end and sum(1 for f in REC.futures) > len(REC.cex) and any(not f.done() for f in REC.futures):
        time.sleep(0.02)
    time.sleep(0.05)
    res["counters"]["contracts"] += 1
    if out.exception or len(out.results) != len(c.invs):
        res["counters"]["run_failed"] += 1
        res["samples"].append(dict(wit, run_failed=(out.exception or "")[-400:], warnings=out.warnings()[:3]))
        return
    ws = out.warnings()
    incomplete = [w for w in ws if any(t in w for t in INCOMPLETE)]
    orc = invgen2.oracle(c, c.depth, max_nodes=3000)
    res["counters"]["oracle_sequences"] += orc["explored"]
    res["counters"]["oracle_states"] += orc["states"]
    if orc["truncated"]:
        res["counters"]["oracle_truncated"] += 1
    by = {r.name: r for r in out.results}
    # R. reachability
    for f in c.invs:
        r = by[f.sig]
        res["counters"]["evaluations"] += 1
        res["counters"]["invariant_tests"] += 1
        res["counters"][f"verdict_{r.exitcode}"] += 1
        seq = orc["inv"].get(f.sig)
        if seq is not None:
            res["counters"]["breaking_sequences_found"] += 1
            res["counters"][f"breaking_len{len(seq)}"] += 1
            res["distinct"].append(f"{idx}:{f.sig}")
            if r.exitcode == 0 and not incomplete:
                res["violations"].append(dict(what="PASS although a call sequence within invariant_depth breaks the invariant", key=f"missed-sequence:{c.kind}:{f.name.split('_')[1][:6]}",
                                              test=f.sig, sequence=[x.describe() for x in seq], warnings=ws[:3], **wit))
            elif r.exitcode == 1:
                res["counters"]["breaks_reported_as_fail"] += 1
            else:
                res["counters"]["breaks_with_other_verdict_or_warning"] += 1
    reported_probes = {c_["ex"].context.message.fun_info.sig for c_ in REC.cex if c_["is_probe"] and model_dict(c_["output"]) is not None}
    for (addr, sig), seq in orc["probe"].items():
        res["counters"]["probe_sequences_found"] += 1
        if sig in reported_probes:
            res["counters"]["probes_reported"] += 1
        elif not incomplete:
            res["violations"].append(dict(what="a target assertion reachable within invariant_depth is not reported", key="missed-probe", target_fn=sig, sequence=[x.describe() for x in seq], **wit))
    # C. counterexample replay
    for cex in list(REC.cex):
        replay_cex(c, cex, res, wit)
    # F. filters
    fns, pred, cands = invgen2.allowed(c)
    want = sorted({(a, f.sig) for a, f in fns})
    by_state = {}
    for sid, addr, sig, sender, cond in REC.targets:
        by_state.setdefault(sid, set()).add((addr, sig))
        res["counters"]["target_calls_observed"] += 1
        # sender admissibility on a finite probe set
        for s in [foundry.CALLER, foundry.TEST, 0xBEEF, 0xCAFE, 0xD00D]:
            if cond is None:
                adm = True
            else:
                t = z3.simplify(z3.substitute(cond, (sender, z3.BitVecVal(s, 160))))
                adm = z3.is_true(t)
                if not (z3.is_true(t) or z3.is_false(t)):
                    continue
            res["counters"]["sender_constraints_checked"] += 1
            if adm != pred(s):
                res["violations"].append(dict(what="the sender constraint of a target call disagrees with the target/exclude sender filters", key="sender-filter", sender=hex(s), admitted=adm, **wit))
                break
    for sid, got in by_state.items():
        res["counters"]["frontier_states_expanded"] += 1
        if getattr(c, "dynamic", None):
            # the admissible set depends on which children exist in that state: only the static part is compared
            got = {(a, sg) for a, sg in got if a in c.contracts}
        if sorted(got) != want:
            res["violations"].append(dict(what="the functions executed from a frontier state differ from the admissible set under the filters", key="function-filter",
                                          got=sorted((hex(a) if isinstance(a, int) else a, s) for a, s in got), want=[(hex(a), s) for a, s in want], **wit))
            break
    if c.depth >= 1 and not by_state and want:
        res["violations"].append(dict(what="no target function was executed although the filters admit some", key="function-filter-none", want=[(hex(a), s) for a, s in want], **wit))
    # M. merging
    for ev in REC.state_events:
        res["counters"]["state_ids_" + ev[0]] += 1
        if ev[0] == "hit-different":
            diff = [i for i in range(4) if ev[2][i] != ev[3][i]]
            res["violations"].append(dict(what="two different states received the same state id (merged although not identical)", key="merge-nonidentical:" + ",".join(["storage", "balance", "code", "path"][i] for i in diff),
                                          first=str([ev[2][i] for i in diff])[:600], second=str([ev[3][i] for i in diff])[:600], **wit))
    if idx % 23 == 0:
        res["samples"].append(dict(wit, verdicts={r.name: r.exitcode for r in out.results}, oracle_breaks={k: len(v) for k, v in orc["inv"].items()}, cex=len(REC.cex),
                                   states=len(REC.states), target_calls=len(REC.targets)))
    for v in res["violations"]:
        v.setdefault("index", idx)


def probe_value_transfer(res):
    """dedicated probe of the known finding: the msg.value of a top-level target call is visible to the callee (CALLVALUE) but is
    not moved from the sender to the callee, so invariants that read a target's ether balance see a stale balance"""
    rng = random.Random("c15-probe-value")
    c = invgen2.make_case(rng, kind="vault", depth=1, with_aux=False, filters={}, balance_invariants=True)
    REC.reset()
    out = A.run(A.make_ctx(c.test, funsigs=[f.sig for f in c.invs], overrides=dict(invariant_depth=1), others=[c.target]))
    res["counters"]["probes_run"] += 1
    if out.exception or len(out.results) != len(c.invs):
        res["counters"]["probe_run_failed"] += 1
        return
    by = {r.name: r.exitcode for r in out.results}
    orc = invgen2.oracle(c, 1)
    missed = orc["inv"].get("invariant_bal_lt5()") is not None and by.get("invariant_bal_lt5()") == 0
    spurious = orc["inv"].get("invariant_solvent()") is None and by.get("invariant_solvent()") == 1
    if missed:
        res["counters"]["probe_value_not_transferred:missed"] += 1
    if spurious:
        res["counters"]["probe_value_not_transferred:spurious"] += 1
    res["samples"].append(dict(probe="value-transfer", verdicts=by, oracle={k: [x.describe() for x in v] for k, v in orc["inv"].items()}))


def worker(task):
    _imports()
    install()
    lo, hi, seed, kind = task
    res = new_result()
    if kind == "probe":
        probe_value_transfer(res)
        return res
    for idx in range(lo, hi):
        one_case(seed, idx, res, kind)
    return res


def main():
    run = Run("C15", "exploration")
    _imports()
    run.rule = ("generated invariant-test contracts (7 target kinds x optional second target x random contents of the six filter getters x invariant_depth 0..3) run through run_contract with monitors; "
                "explicit-state breadth-first oracle on the reference EVM => FAIL / probe report required; every reported counterexample concretised and replayed; executed (contract,function,sender constraint) "
                "sets compared with an independent filter resolution; every state-id hit compared by canonical serialisation; non-trivial = distinct (case, invariant) with a breaking sequence found by the oracle")
    run.assumptions = ["a PASS where the bounded oracle finds nothing is not judged", "filter combinations that leave no target contract are not generated",
                       "sender candidates for the oracle are a finite set; the sender only varies for the owner-checking target"]
    if run.replay:
        w = json.load(open(run.replay))["witness"]
        res = new_result()
        install()
        one_case(run.seed, int(w["index"]), res)
        run.merge(res)
        run.finish()
    n = run.n(160, 3000)
    tasks = [(0, 0, run.seed, "probe")] + [(lo, min(n, lo + 4), run.seed, None) for lo in range(0, n, 4)]
    run_pool(run, worker, tasks, soft_timeout=1200)
    m, sp = run.counters.get("probe_value_not_transferred:missed", 0), run.counters.get("probe_value_not_transferred:spurious", 0)
    if m or sp:
        run.known_finding("top-level-call-value-not-transferred",
                          "payable deposit(): " + ("PASS for 'balance < 5' although deposit{value:5} breaks it" if m else "") + ("; " if m and sp else "") +
                          ("FAIL for 'balance >= total deposits' although no sequence breaks it" if sp else ""))
    run.require("probes_run", 1)
    run.require("invariant_tests", 150)
    run.require("breaking_sequences_found", 40)
    run.require("cex_replayed_ok", 30)
    run.require("frontier_states_expanded", 100)
    run.require("sender_constraints_checked", 300)
    run.require("state_ids_new", 200)
    run.require("probes_reported", 3)
    run.finish()


if __name__ == "__main__":
    main()
