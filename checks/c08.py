"""C08 — storage reads return the last write to the same slot; no aliasing.

Programs of SSTORE/SLOAD/TSTORE/TLOAD over generated location expressions (lib/storagegen.py)
are run symbolically in both storage layouts; for key/index valuations from small colliding
domains every loaded value (returned as output) and every end-state slot must equal the
reference EVM's (real keccak).  Transient storage is additionally run over two transactions
(the second must start empty)."""

import json
import random

import report
from report import Run, new_result, run_pool


def _imports():
    global diffcore, storagegen, workloads, asm
    import diffcore
    import storagegen
    import workloads
    from asm import asm


def probe_bucket_boundary():
    """a[i] written with symbolic i, read through the folded constant keccak(slot)+i crossing a 2^16 bucket"""
    import storagegen as sg

    for s in sg.boundary_slots():
        h = sg.H(s)
        lo = h & 0xFFFF
        delta = (0x10000 - lo) if lo >= 0xFFFD else None
        if delta is None:
            continue
        # store at keccak(s) + cd0 ; load from the constant keccak(s)+delta (next bucket)
        code = asm([0x2A] + [s, 0, "MSTORE", 0x20, 0, "SHA3", 4, "CALLDATALOAD", "ADD", "SSTORE",
                    ("push", (h + delta) & sg.M, 32), "SLOAD", 0, "MSTORE", 32, 0, "RETURN"])
        case = diffcore.Case({0x1000: code}, ncd=1)
        msg = workloads._probe_case(case, [{"cd": [delta]}, {"cd": [0]}])
        if msg:
            return f"slot {s}: {msg}"
    return None


def probe_negative_offset_generic():
    """(keccak(p)-1)+n must denote the same slot as keccak(p)+m when n == m+1 (generic layout)"""
    import storagegen as sg

    h = sg.H(3)
    code = asm([0x2A, ("push", h, 32), 4, "CALLDATALOAD", "ADD", "SSTORE",
                ("push", (h - 1) & sg.M, 32), 36, "CALLDATALOAD", "ADD", "SLOAD", 0, "MSTORE", 32, 0, "RETURN"])
    for lay in ("solidity", "generic"):
        case = diffcore.Case({0x1000: code}, ncd=2, overrides={"storage_layout": lay})
        msg = workloads._probe_case(case, [{"cd": [4, 5]}, {"cd": [0, 1]}, {"cd": [3, 3]}])
        if msg:
            return f"layout {lay}: {msg}"
    return None


def probe_constant_outside_table():
    """store through PUSH32 keccak(2 . 3) (not in the built-in table, not hashed before), load through the runtime hash"""
    import storagegen as sg

    h = sg.H(2, 3)
    code = asm([0x2A, ("push", h, 32), "SSTORE", 2, 0, "MSTORE", 3, 0x20, "MSTORE", 0x40, 0, "SHA3", "SLOAD", 0, "MSTORE", 32, 0, "RETURN"])
    return workloads._probe_case(diffcore.Case({0x1000: code}, ncd=0), [{}])


def probe_large_concrete_offset():
    """a[65536] through a concrete index vs the same element through a symbolic index"""
    import storagegen as sg

    code = asm([0x2A, 3, 0, "MSTORE", 0x20, 0, "SHA3", 4, "CALLDATALOAD", "ADD", "SSTORE",
                3, 0, "MSTORE", 0x20, 0, "SHA3", ("push", 0x10000, 3), "ADD", "SLOAD", 0, "MSTORE", 32, 0, "RETURN"])
    return workloads._probe_case(diffcore.Case({0x1000: code}, ncd=1), [{"cd": [0x10000]}, {"cd": [5]}])


def probe_packed_key_concrete_vs_symbolic():
    """m[bytes20(k)] stored with a symbolic key, loaded with the concrete key 1"""
    st = [4, "CALLDATALOAD", 96, "SHL", 0, "MSTORE", 2, 20, "MSTORE", 52, 0, "SHA3"]
    ld = [1, 96, "SHL", 0, "MSTORE", 2, 20, "MSTORE", 52, 0, "SHA3"]
    code = asm([0x2A] + st + ["SSTORE"] + ld + ["SLOAD", 0, "MSTORE", 32, 0, "RETURN"])
    return workloads._probe_case(diffcore.Case({0x1000: code}, ncd=1), [{"cd": [1]}, {"cd": [2]}])


def worker(task):
    _imports()
    lo, hi, seed = task
    res = new_result()
    for idx in range(lo, hi):
        rng = random.Random(f"c08-{seed}-{idx}")
        transient = rng.random() < 0.2
        ov = {"storage_layout": "generic"} if rng.random() < 0.4 else {}
        k0 = rng.random()
        if k0 < 0.12:
            case = storagegen.make_transient_pair_case(rng, overrides=ov)
            res["counters"]["transient_two_account_programs"] += 1
        elif k0 < 0.2:
            case = storagegen.make_symbolic_transient_case(rng, overrides=ov)
            res["counters"]["symbolic_storage_transient_programs"] += 1
        else:
            case = storagegen.make_storage_case(rng, transient=transient, overrides=ov)
        res["features"]["layout:" + ov.get("storage_layout", "solidity")] += 1
        for f in case.gen_features:
            res["features"]["gen:" + f] += 1
        ins = storagegen.domain_inputs(rng, case, n=8)
        # inputs come from the colliding domains only: indices >= 2^64 are outside the documented hash-offset assumption
        r = diffcore.diff_case(case, rng, res, n_random=0, n_models=0, extra_inputs=ins, judge_c01=True, judge_c02=True)
        if r is None:
            continue
        if case.label == "symbolic-storage-transient":
            # the persistent storage is an unconstrained input here, so "some valuation agrees with the reference" is not enough: the transient
            # reads must be *determined* by the call data.  For every input and admitting path: no valuation of the free symbols may give an
            # output different from the reference's.
            import z3, pathmodel
            for inp in ins:
                pn = diffcore.pins_for(r, inp)
                try:
                    ref = diffcore.run_reference(case, inp, [])
                except Exception:  # noqa
                    continue
                if not ref["ok"]:
                    continue
                want = ref["ret"]
                for p_ in r.paths:
                    if p_.stuck or p_.error is not None or p_.out is None or isinstance(p_.out, bytes):
                        continue
                    if p_.out.size() != 8 * len(want) or not want:
                        continue
                    v1 = pathmodel.admits(list(p_.conds), [], pn)
                    if v1[0] != "sat":
                        continue
                    res["counters"]["determinacy_obligations"] += 1
                    v2 = pathmodel.admits(list(p_.conds) + [p_.out != z3.BitVecVal(int.from_bytes(want, "big"), p_.out.size())], [], pn)
                    if v2[0] == "sat":
                        res["violations"].append(dict(what="a transient-storage read is not determined by the inputs once symbolic (persistent) storage is enabled: the path admits the input with an output that differs from the EVM's",
                                                      key="transient-read-undetermined", case=case.describe(), input=inp.describe(), want=want.hex()[:300], index=idx))
                        break
                    elif v2[0] == "unsat":
                        res["counters"]["determinacy_discharged"] += 1
        res["counters"]["storage_programs"] += 1
        # non-trivial: some valuation makes two *different* location specs denote the same slot, while another keeps them apart
        coll = sep = False
        for inp in ins:
            slots = {}
            for l in set(case.locs):
                slots.setdefault(storagegen.concrete_slot(l, inp.cd), set()).add(l)
            if any(len(v) > 1 for v in slots.values()):
                coll = True
                res["counters"]["valuations_with_colliding_locations"] += 1
            else:
                sep = True
        if coll:
            res["counters"]["programs_with_collisions"] += 1
            import hashlib
            res["distinct"].append("coll:" + hashlib.sha256(case.contracts[0x1000]).hexdigest()[:16])
        if idx % 41 == 0:
            res["samples"].append(dict(index=idx, layout=ov.get("storage_layout", "solidity"), locations=[str(l) for l in case.locs], code=case.contracts[0x1000].hex()[:300], paths=len(r.paths)))
    for v in res["violations"]:
        v["prop"] = "C08"
    return res


def main():
    run = Run("C08", "exploration")
    _imports()
    run.rule = ("store/load sequences over generated location expressions {scalar, mapping, nested mapping, array element, struct field, packed key} x ways "
                "{runtime sha3, precomputed constant, constant-folded base+offset, reordered additions}; keys in {0,1,2}, indices in {0,1,2,2^16-1,2^16,2^16+1}; "
                "both storage layouts; transient storage over two transactions; non-trivial = distinct program in which two different location specifications denote the same slot under at least one tested valuation")
    run.assumptions = ["real keccak via pysha3", "hash range / injectivity", "array indices / struct offsets < 2^64 (no wrap-around past a hash)", "scalar slots and hash-derived slots never collide (Solidity layout)"]
    if run.replay:
        import c01

        c01._imports()
        w = json.load(open(run.replay))["witness"]
        res = new_result()
        ov = {}
        if "generic" in str(w["case"].get("overrides")):
            ov = {"storage_layout": "generic"}
        case = diffcore.Case({int(a, 16): bytes.fromhex(c) for a, c in w["case"]["contracts"].items()}, ncd=w["case"]["ncd"], overrides=ov,
                             second_tx=tuple(w["case"]["second_tx"]) if w["case"].get("second_tx") else None)
        if "input" in w:
            i = w["input"]
            inp = diffcore.Input()
            inp.cd = [int(x, 16) for x in i["cd"]]
            inp.caller, inp.origin, inp.value = int(i["caller"], 16), int(i["origin"], 16), int(i["value"], 16)
            inp.balances = {int(k, 16): int(v, 16) for k, v in i["balances"].items()}
            inp.source = "replay"
            inp.cd2 = [int(x, 16) for x in i.get("cd2") or []] or None
            inp.caller2, inp.origin2, inp.value2 = 0x2002, 0x2002, 0
            diffcore.diff_case(case, random.Random(0), res, n_random=0, n_models=0, extra_inputs=[inp])
        run.merge(res)
        run.finish()
    for mech, fn in (("reverse-lookup-misses-neighbouring-2^16-bucket", probe_bucket_boundary),
                     ("negative-folded-offset-not-matched-generic-layout", probe_negative_offset_generic),
                     ("precomputed-hash-constant-outside-builtin-table", probe_constant_outside_table),
                     ("concrete-offset-of-2^16-or-more-from-hash-not-recognised", probe_large_concrete_offset),
                     ("packed-key-concrete-vs-symbolic-not-matched", probe_packed_key_concrete_vs_symbolic)):
        run.count("probes_run")
        try:
            msg = fn()
        except Exception as e:
            msg = f"probe raised {type(e).__name__}: {e}"[:300]
        if msg:
            run.known_finding(mech, msg)
    n = run.n(360, 12000)
    tasks = [(lo, min(n, lo + 5), run.seed) for lo in range(0, n, 5)]
    run_pool(run, worker, tasks, soft_timeout=300)
    run.require("path_input_pairs", 1500)
    run.require("storage_programs", 200)
    run.require("programs_with_collisions", 30)
    run.require("transient_two_account_programs", 10)
    for need in ("gen:shape:array", "gen:shape:nested-mapping", "gen:shape:packed-key", "gen:way:precomputed-constant", "gen:way:reordered-additions", "gen:boundary-slot", "layout:generic"):
        if run.features.get(need, 0) < 10:
            run.inconclusive.append(f"feature {need} seen {run.features.get(need, 0)} < 10 times")
    run.finish()


if __name__ == "__main__":
    main()
