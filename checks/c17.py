"""C17 — solver subprocess lifecycle (halmos/processes.py, solve_low_level) is safe under every schedule.

 S. schedule exploration with simulated processes: processes.Popen / processes.psutil are replaced by a simulated process table
    (instant spawn; processes that exit on their own when the *scheduler* says so, hang, ignore SIGTERM, have children that may exit
    at any time; communicate(timeout) whose expiry is a scheduler action; psutil semantics incl. NoSuchProcess for vanished
    processes and the 0.5 s grace wait as a scheduler action).  The real PopenExecutor / PopenFuture / solve_low_level code runs in
    real threads; lib/sched.py serialises them at the line events of processes.py and picks the interleaving (uniform random,
    sticky, and systematic bounded-preemption enumeration).  Scenarios: 1-3 jobs x {submit via executor.submit + result(), via
    solve_low_level} x {shutdown(wait=False), shutdown(wait=True), none} x direct cancel x late submit.
    Oracles at quiescence: every accepted job's done-callback ran exactly once and its waiter returned; no thread died with an
    exception; a job whose timeout expired is delivered as TimeoutExpired / `unknown` (never a result tuple, never unsat); results
    are not cross-delivered; after shutdown(wait=False) returned no simulated process (incl. children) is alive; a submit that
    starts after shutdown returned raises ShutdownError.
 R. stress with real subprocesses: sh stubs (fast, slow, > 64 KiB output, child-spawning, TERM-ignoring) tagged by an environment
    marker; several submitter threads; shutdown(wait=False) at random instants; afterwards (grace 1.5 s) no process carrying the
    marker is alive (scan of /proc/*/environ), late submits raise ShutdownError, every accepted future delivers exactly once
    within a bound; real timeouts through solve_low_level give `unknown`."""

import hashlib
import json
import os
import random
import subprocess
import sys
import threading
import time

import report
from report import Run, new_result, run_pool


def _imports():
    global P, sched, solve, z3
    import halmos.processes as P
    import halmos.solve as solve
    import sched
    import z3


# ------------------------------------------------------------------------------------------ simulated process table
class Table:
    def __init__(self, s):
        self.s = s
        self.cv = threading.Condition()
        self.procs = {}
        self.next_pid = 5_000_000  # above the kernel's pid_max: can never name a real process
        self.spawn_log = []

    def new_pid(self):
        self.next_pid += 1
        return self.next_pid


class FakeStream:
    def __init__(self):
        self.closed = False

    def close(self):
        self.closed = True


class SimProc:
    """kinds: fast (exits by itself when the scheduler runs its exit action), hang (only signals end it), stubborn (ignores SIGTERM)"""

    def __init__(self, table, kind, job, nchildren=0, parent=None):
        self.t = table
        self.kind = kind
        self.job = job
        self.pid = table.new_pid()
        self.returncode = None
        self.parent = parent
        self.children = []
        self.timeout_fired = False
        self.grace_fired = False
        self.communicating = None  # timeout value while a communicate() is pending
        self.waiting_grace = False
        self.stdout, self.stderr, self.stdin = FakeStream(), FakeStream(), None
        table.procs[self.pid] = self
        for i in range(nchildren):
            self.children.append(SimProc(table, "child-stubborn" if i % 2 else "child", job, parent=self))

    def alive(self):
        return self.returncode is None

    def finish(self, rc):
        with self.t.cv:
            if self.returncode is None:
                self.returncode = rc
            self.t.cv.notify_all()

    # Popen API
    def communicate(self, timeout=None):
        self.communicating = timeout if timeout is not None else -1
        self.t.s.env_wait(lambda: not self.alive() or (timeout is not None and self.timeout_fired), self.t.cv)
        self.communicating = None
        if timeout is not None and self.timeout_fired:
            # the expiry of the time limit decides the outcome of communicate() at the moment it happens
            raise subprocess.TimeoutExpired(["job", str(self.job)], timeout)
        return (f"unsat\n;job={self.job}\n" if self.returncode == 0 else "", "")

    def poll(self):
        return self.returncode


class FakePsutil:
    class NoSuchProcess(Exception):
        pass

    class TimeoutExpired(Exception):
        pass

    table = None

    class Process:
        def __init__(self, pid):
            self.p = FakePsutil.table.procs.get(pid)
            if self.p is None or not self.p.alive():
                raise FakePsutil.NoSuchProcess(pid)
            self.pid = pid

        def children(self, recursive=True):
            if not self.p.alive():
                raise FakePsutil.NoSuchProcess(self.pid)
            out = []
            for c in self.p.children:
                if c.alive():
                    out.append(FakePsutil.Process(c.pid))
            return out

        def terminate(self):
            if not self.p.alive():
                raise FakePsutil.NoSuchProcess(self.pid)
            if "stubborn" not in self.p.kind:
                self.p.finish(-15)

        def kill(self):
            if not self.p.alive():
                raise FakePsutil.NoSuchProcess(self.pid)
            self.p.finish(-9)

        def wait(self, timeout=None):
            self.p.waiting_grace = True
            self.p.grace_fired = False
            FakePsutil.table.s.env_wait(lambda: not self.p.alive() or self.p.grace_fired, FakePsutil.table.cv)
            self.p.waiting_grace = False
            if self.p.alive():
                raise FakePsutil.TimeoutExpired(timeout)
            return self.p.returncode

        def is_running(self):
            return self.p.alive()


# ------------------------------------------------------------------------------------------ scenario
class Job:
    pass


def make_scenario(rng):
    sc = dict(njobs=rng.choice([1, 1, 2, 2, 3]), jobs=[], shutdown=rng.choice(["nowait", "nowait", "nowait", "wait", "wait+nowait", None]), late=rng.random() < 0.5,
              cancel=rng.random() < 0.25)
    for k in range(sc["njobs"]):
        kind = rng.choice(["fast", "fast", "hang", "hang", "stubborn"])
        j = dict(kind=kind, timeout=rng.choice([None, 1.0]), nchildren=rng.choice([0, 0, 1, 2]) if kind != "fast" else 0, via=rng.choice(["submit", "solve"]))
        if sc["shutdown"] == "wait" and kind != "fast" and j["timeout"] is None:  # (with "wait+nowait" the second request ends the hanging jobs)
            j["timeout"] = 1.0  # shutdown(wait=True) can only return if every job ends by itself or times out
        j["delay"] = rng.choice([0, 0, 0, 5, 20, 40])
        sc["jobs"].append(j)
    sc["shutdown_delay"] = rng.choice([0, 5, 10, 15, 20, 25, 30, 40, 60, 90])
    sc["second_delay"] = rng.choice([0, 5, 20, 40])
    if any(j["kind"] != "fast" and j["timeout"] is None for j in sc["jobs"]) and sc["shutdown"] is None and not sc["cancel"]:
        sc["shutdown"] = "nowait"
    if sc["shutdown"] is None:
        sc["late"] = False
    return sc


def run_schedule(sc, chooser_factory, workdir, res, wit):
    """one controlled execution; returns the choice-list hash"""
    S = sched.Sched(None, [P.__file__])
    S.chooser = chooser_factory(S)
    table = Table(S)
    FakePsutil.table = table
    spawn_kinds = {}

    def fake_popen(cmd, **kw):
        if cmd[-1] == "late":
            p = SimProc(table, "hang", "late")
            table.spawn_log.append(("late", p.pid, S.step))
            return p
        k = int(cmd[-1]) if cmd[-1].isdigit() else int(os.path.basename(cmd[-1]).split(".")[0])
        j = sc["jobs"][k]
        p = SimProc(table, j["kind"], k, nchildren=j["nchildren"])
        table.spawn_log.append((k, p.pid, S.step))
        return p

    real = (P.Popen, P.psutil)
    P.Popen = fake_popen
    P.psutil = FakePsutil

    def env_actions():
        acts = []
        for p in list(table.procs.values()):
            if not p.alive():
                continue
            if p.kind == "fast":
                acts.append((f"exit:{p.job}", lambda p=p: p.finish(0)))
            if p.kind == "child":
                acts.append((f"child-exit:{p.job}:{p.pid % 10}", lambda p=p: p.finish(0)))
            if p.communicating not in (None, -1) and not p.timeout_fired:
                acts.append((f"timeout:{p.job}", lambda p=p: (setattr(p, "timeout_fired", True), p.finish(None))))
            if p.waiting_grace and not p.grace_fired:
                acts.append((f"grace:{p.job}", lambda p=p: (setattr(p, "grace_fired", True), p.finish(None))))
        return acts

    S.env_actions = env_actions
    ex = P.PopenExecutor()
    args = ARGS
    sctx = solve.SolvingContext(dump_dir=__import__("pathlib").Path(workdir), executor=ex)
    state = dict(shutdown_returned=None, shutdown_exc=None)
    jobs = []
    thread_errors = []
    old_hook = threading.excepthook

    def hook(a):
        thread_errors.append(f"{a.exc_type.__name__}: {a.exc_value} in {a.thread.name}")

    threading.excepthook = hook
    S.base_threads = set(threading.enumerate())

    def client(k):
        j = sc["jobs"][k]
        st = jobs[k]
        S.wait_until_step(j.get("delay", 0))
        try:
            if j["via"] == "solve":
                pc = solve.PathContext(args=args.with_overrides(CL, solver_timeout_assertion=j["timeout"] or 0), path_id=k, solving_ctx=sctx, query=QUERY)
                st.call_step = S.step
                try:
                    out = solve.solve_low_level(pc)
                    st.accepted = True
                    st.outcome = ("solver-output", str(out.result), out.returncode)
                except P.ShutdownError:
                    st.accepted = False
                    st.outcome = ("shutdown-error",)
                except Exception as e:  # noqa
                    st.accepted = True
                    st.outcome = ("exception", type(e).__name__, str(e)[:100])
                st.done_step = S.step
            else:
                f = P.PopenFuture(["job", str(k)], timeout=j["timeout"])
                st.future = f
                if k == 0:
                    fut_created.set()
                f.add_done_callback(lambda fut: st.callbacks.append(S.step))
                st.call_step = S.step
                try:
                    ex.submit(f)
                    st.accepted = True
                except P.ShutdownError:
                    st.accepted = False
                    st.outcome = ("shutdown-error",)
                    return
                st.submit_returned = S.step
                try:
                    r = f.result(timeout=30)
                    st.outcome = ("result", r)
                except subprocess.TimeoutExpired:
                    st.outcome = ("timeout-expired",)
                except Exception as e:  # noqa
                    st.outcome = ("exception", type(e).__name__, str(e)[:100])
                st.done_step = S.step
        finally:
            st.finished = True

    def shutdowner2():
        # a second request, shutdown(wait=False), while (or after) a shutdown(wait=True) is in progress: it must still end every job
        S.wait_until_step(sc.get("shutdown_delay", 0) + sc.get("second_delay", 10))
        try:
            ex.shutdown(wait=False)
        except BaseException as e:  # noqa
            state["shutdown2_exc"] = f"{type(e).__name__}: {e}"
        state["shutdown2_returned"] = S.step

    def shutdowner():
        S.wait_until_step(sc.get("shutdown_delay", 0))
        try:
            ex.shutdown(wait=(sc["shutdown"] in ("wait", "wait+nowait")))
        except BaseException as e:  # noqa
            state["shutdown_exc"] = f"{type(e).__name__}: {e}"
        state["alive_at_return"] = [(p.job, p.pid, p.kind) for p in table.procs.values() if p.alive()]
        state["shutdown_returned"] = S.step
        sd_done.set()

    sd_done = threading.Event()
    fut_created = threading.Event()

    def late():
        while not sd_done.wait(0.05):
            if S.stop:
                return  # shutdown never returned while the schedule was controlled: nothing to test
        st = Job()
        st.k, st.accepted, st.outcome = "late", None, None
        f = P.PopenFuture(["job", "late"], timeout=None)
        try:
            ex.submit(f)
            st.accepted = True
        except P.ShutdownError:
            st.accepted = False
        state["late"] = st

    def canceller():
        # direct cancel of job 0's future once it exists
        while not fut_created.wait(0.05):
            if S.stop:
                return
        f = getattr(jobs[0], "future", None)
        if f is not None:
            f.cancel()
            state["cancelled"] = S.step

    threads = []
    for k in range(sc["njobs"]):
        st = Job()
        st.k, st.accepted, st.outcome, st.callbacks, st.finished, st.future = k, None, None, [], False, None
        st.call_step = st.done_step = st.submit_returned = None
        jobs.append(st)
        threads.append(threading.Thread(target=client, args=(k,), name=f"H:c{k}"))
    if sc["shutdown"]:
        threads.append(threading.Thread(target=shutdowner, name="H:sd"))
    if sc["shutdown"] == "wait+nowait":
        threads.append(threading.Thread(target=shutdowner2, name="H:sd2"))
    if sc["late"]:
        threads.append(threading.Thread(target=late, name="H:late"))
    if sc["cancel"] and sc["jobs"][0]["via"] == "submit":
        threads.append(threading.Thread(target=canceller, name="H:cancel"))
    try:
        S.run(threads, budget=25.0)
    finally:
        threading.excepthook = old_hook
    try:
        return _judge(sc, S, table, jobs, state, threads, thread_errors, res, wit)
    finally:
        P.Popen, P.psutil = real


def _judge(sc, S, table, jobs, state, threads, thread_errors, res, wit):
    # let background threads settle (they run free once the scheduler has stopped)
    t_end = time.time() + (0.1 if S.stalled else 2.0)
    while time.time() < t_end and any(t.is_alive() for t in threads):
        time.sleep(0.01)
    time.sleep(0.02)
    h = hashlib.sha256(repr(S.trace).encode()).hexdigest()[:16]
    w = dict(wit, scenario=sc, trace=[f"{n}@{l}" for n, l in S.trace][-120:], steps=S.step, stalled=S.stalled, hash=h)
    survivors = [(p.job, p.pid, p.kind) for p in table.procs.values() if p.alive()]
    res["counters"]["schedules"] += 1
    res["counters"]["steps"] += S.step
    for n, _ in S.trace:
        res["features"]["op:" + n.split(":")[0]] += 1
    LIVENESS = ("survivor-after-shutdown", "waiter-blocked", "timeout-survivor", "wait-shutdown-ended-early")

    def viol(what, key, **kw):
        if S.uncertain and key.startswith(LIVENESS):
            # the run was ended by a watchdog, not by established quiescence: "nothing can happen any more" is not known
            res["counters"]["liveness_verdicts_skipped_uncertain_quiescence"] += 1
            return
        res["violations"].append(dict(what=what, key=key, **kw, **w))

    if wit.get("index", 0) % 37 == 0 and not wit.get("points"):
        res["samples"].append(dict(wit, scenario=sc, schedule=[f"{n}@{l}" for n, l in S.trace][:80], steps=S.step,
                                   ended="watchdog" if S.uncertain else "quiescent-blocked" if S.stalled else "all-threads-finished"))
    res["counters"]["quiescence_probes"] += S.probes
    if S.uncertain:
        res["counters"]["schedules_ended_by_watchdog"] += 1
    elif S.stalled:
        res["counters"]["schedules_ended_quiescent_blocked"] += 1
    else:
        res["counters"]["schedules_ended_all_threads_finished"] += 1
    if S.step >= S.max_steps:
        res["counters"]["schedules_step_limit"] += 1
    if thread_errors:
        viol("a thread of the executor died with an exception", "thread-exception:" + thread_errors[0].split(":")[0], errors=thread_errors[:3])
    if state["shutdown_exc"]:
        res["counters"]["shutdown_ended_by_exception"] += 1
    early = state.get("alive_at_return") or []
    if sc["shutdown"] == "wait+nowait":
        # a concurrent shutdown(wait=False) may be in the middle of its cancel (terminate sent, grace period running, force kill pending) when
        # the waiting shutdown returns: a process that is still being killed then is a transient state, not one that "keeps running" —
        # only processes that are still alive when nothing can happen any more count
        transient = [e for e in early if e not in survivors]
        if transient:
            res["counters"]["alive_at_wait_return_but_killed_by_concurrent_cancel"] += 1
        early = [e for e in early if e in survivors]
    if sc["shutdown"] in ("wait", "wait+nowait") and state["shutdown_returned"] is not None and early:
        viol("shutdown(wait=True) ended while a solver process was still running", "wait-shutdown-ended-early", alive=early, shutdown_exception=state["shutdown_exc"])
    expect_all_dead = sc["shutdown"] is not None and state["shutdown_returned"] is not None
    if sc["shutdown"] == "wait+nowait":
        res["features"]["double-shutdown"] += 1
        expect_all_dead = state.get("shutdown2_returned") is not None
        if expect_all_dead:
            res["counters"]["second_shutdown_requests_returned"] += 1
    if expect_all_dead and survivors:
        viol("a process is still running after shutdown() returned and the system quiesced", "survivor-after-shutdown:" + ",".join(sorted({k for _, _, k in survivors})), survivors=survivors,
             jobs=[dict(k=j.k, accepted=j.accepted, call=j.call_step, outcome=str(j.outcome)[:80]) for j in jobs], shutdown_returned=state["shutdown_returned"])
    if expect_all_dead and not survivors:
        res["counters"]["shutdowns_with_no_survivor"] += 1
    lt = state.get("late")
    if lt is not None:
        res["counters"]["late_submits"] += 1
        if lt.accepted:
            viol("a job submitted after shutdown() had returned was accepted", "late-submit-accepted")
    for st in jobs:
        j = sc["jobs"][st.k]
        if st.accepted is None and not st.finished:
            res["counters"]["clients_unfinished"] += 1
            if not survivors:
                viol("a client is still blocked at quiescence although no process is running (waiting never returns)", "waiter-blocked", job=st.k)
            continue
        if not st.accepted:
            res["counters"]["jobs_refused"] += 1
            if state["shutdown_returned"] is None and sc["shutdown"] is None:
                viol("submit raised ShutdownError although shutdown was never requested", "spurious-shutdown-error", job=st.k)
            continue
        res["counters"]["jobs_accepted"] += 1
        if not st.finished:
            res["counters"]["clients_unfinished"] += 1
            if not any(s[0] == st.k for s in survivors):
                viol("waiting on an accepted job does not return although its process is gone", "waiter-blocked", job=st.k, outcome=str(st.outcome))
            continue
        procs = [p for p in table.procs.values() if p.job == st.k and p.parent is None]
        timed_out = any(p.timeout_fired for p in procs)
        exited_ok = any(p.returncode == 0 for p in procs)
        if j["via"] == "submit":
            if len(st.callbacks) != 1:
                viol("done-callback of an accepted job ran %d times" % len(st.callbacks), "callback-count", job=st.k)
            else:
                res["counters"]["callbacks_exactly_once"] += 1
            kind = st.outcome[0]
            if timed_out and kind != "timeout-expired":
                viol("a job whose time limit expired was not delivered as TimeoutExpired", "timeout-not-reported", job=st.k, outcome=str(st.outcome)[:120])
            if timed_out and kind == "timeout-expired":
                res["counters"]["timeouts_delivered"] += 1
            if kind == "result":
                out, err, rc = st.outcome[1]
                if out and f";job={st.k}\n" not in out:
                    viol("a job received another job's output", "cross-delivery", job=st.k, outcome=str(st.outcome)[:120])
                if out and "unsat" in out and not exited_ok:
                    viol("a job that did not end normally reports solver output", "output-without-exit", job=st.k)
                res["counters"]["results_delivered"] += 1
        else:
            o = st.outcome
            if o[0] == "solver-output":
                res["counters"]["solver_outputs:" + o[1]] += 1
                if o[1] == "unsat" and (timed_out or not exited_ok):
                    viol("solve_low_level reported unsat for a job that timed out or was killed", "unsat-from-timeout", job=st.k, outcome=str(o))
                if timed_out and o[1] != "unknown":
                    viol("solve_low_level did not report unknown for a job whose time limit expired", "timeout-not-unknown", job=st.k, outcome=str(o))
                if timed_out and o[1] == "unknown":
                    res["counters"]["timeouts_delivered"] += 1
            else:
                res["counters"]["solve_exceptions:" + str(o[1])] += 1
        if timed_out and any(p.alive() for p in table.procs.values() if p.job == st.k):
            viol("the process tree of a timed-out job is still alive at quiescence", "timeout-survivor", job=st.k)
    # cleanup: end whatever is left so that blocked threads finish
    S.release = True
    for p in table.procs.values():
        p.finish(-9)
    for p in table.procs.values():
        p.timeout_fired = True
    with table.cv:
        table.cv.notify_all()
    t_end = time.time() + 1.0
    while time.time() < t_end and any(t.is_alive() for t in threads):
        time.sleep(0.01)
    return h, S


def sim_worker(task):
    _imports()
    global ARGS, CL, QUERY
    from halmos.config import ConfigSource, default_config
    from halmos.sevm import SMTQuery

    CL = ConfigSource.command_line
    ARGS = default_config().with_overrides(CL, solver_command="job")
    QUERY = SMTQuery("(assert true)", [])
    mode, lo, hi, seed = task
    res = new_result()
    workdir = os.path.join(report.VERIF, ".work", f"c17-{os.getpid()}")
    os.makedirs(workdir, exist_ok=True)
    for idx in range(lo, hi):
        rng = random.Random(f"c17-{seed}-{mode}-{idx}")
        sc = make_scenario(rng)
        wit = dict(index=idx, mode=mode)
        res["counters"]["evaluations"] += 1
        if mode == "random":
            strat = rng.choice(["uniform", "sticky", "pct", "pct"])
            fac = {"uniform": lambda S: sched.random_chooser(rng), "sticky": lambda S: sched.sticky_chooser(rng, rng.choice([0.6, 0.8, 0.9])),
                   "pct": lambda S: sched.pct_chooser(rng, depth=rng.choice([1, 2, 3]))}[strat]
            res["features"]["strategy:" + strat] += 1
            h, S = run_schedule(sc, fac, workdir, res, wit)
            res["distinct"].append(h)
        else:
            # systematic: baseline run, then one forced switch at every step of the baseline (alternatives rotated), then sampled pairs
            h, S0 = run_schedule(sc, lambda S: sched.preempt_chooser({}), workdir, res, dict(wit, points={}))
            res["distinct"].append(h)
            n = min(S0.step, 120)
            plans = [{i: a} for i in range(n) for a in ((0, 1) if n <= 60 else (i % 2,))]
            plans += [{i: rng.randrange(3), j: rng.randrange(3)} for i, j in (sorted(rng.sample(range(n), 2)) for _ in range(min(30, n)) if n >= 2)]
            if S0.stalled:
                plans = plans[::3]  # schedules of a scenario that ends blocked cost an idle period each
            for pts in plans:
                res["counters"]["evaluations"] += 1
                res["features"][f"preemptions:{len(pts)}"] += 1
                h, _ = run_schedule(sc, lambda S, pts=pts: sched.preempt_chooser(pts), workdir, res, dict(wit, points={str(k): v for k, v in pts.items()}))
                res["distinct"].append(h)
    return res


# ------------------------------------------------------------------------------------------ real subprocesses
def pid_gone(pid):
    """the process has exited (absent or zombie)"""
    try:
        st = open(f"/proc/{pid}/stat").read().rsplit(")", 1)[1].split()[0]
        return st in ("Z", "X")
    except (OSError, IndexError):
        return True


def wait_wrappers_gone(futs, limit=12.0):
    """logical grace period: the kill of a process tree is complete once the wrapper processes themselves have exited
    (a fixed sleep is not: on a loaded machine the worker thread may need a long time to reach its cancel)"""
    t_end = time.time() + limit
    pids = [f.process.pid for f in futs if f.process is not None]
    pending = [f for f in futs if f.process is None and not f.done()]
    while time.time() < t_end:
        pids += [f.process.pid for f in pending if f.process is not None]
        pending = [f for f in pending if f.process is None and not f.done()]
        if not pending and all(pid_gone(p) for p in pids):
            return True
        time.sleep(0.02)
    return False


def marker_cmdlines(mark):
    out = []
    for pid in marker_alive(mark):
        try:
            out.append(open(f"/proc/{pid}/cmdline", "rb").read().replace(b"\0", b" ").decode().strip())
        except OSError:
            pass
    return out


def marker_alive(mark):
    out = []
    for pid in os.listdir("/proc"):
        if not pid.isdigit():
            continue
        try:
            env = open(f"/proc/{pid}/environ", "rb").read()
            if mark.encode() in env:
                st = open(f"/proc/{pid}/stat").read().split(")")[-1].split()[0]
                if st != "Z":
                    out.append(int(pid))
        except OSError:
            continue
    return out


STUBS = {
    "fast": "echo unsat",
    "slow": "exec sleep 30",
    "big": "exec head -c 200000 /dev/zero",
    # runs that contain the forking wrapper ("children") call shutdown only once its process tree is established (the harness waits until
    # all expected descendants carry the marker): a cancel that arrives *while* a wrapper is forking is the known finding probed separately
    # (durations of their own: "slow" and "stubborn" exec `sleep 30` too, and the establishment wait counts command lines)
    "children": "sleep 40 & sleep 41 & wait",
    "stubborn": "trap '' TERM; exec sleep 30",
    "mid": "sleep 0.05; echo unsat",
}


CANCEL_LOG = []


def watch_cancel():
    """monitor on PopenFuture.cancel: records exceptions that escape it (they are swallowed by the cancellation thread pool)"""
    if getattr(P.PopenFuture.cancel, "_c17", False):
        return
    orig = P.PopenFuture.cancel

    def cancel(self):
        try:
            return orig(self)
        except BaseException as e:  # noqa
            CANCEL_LOG.append(f"{type(e).__name__}: {e} (pid {self.process.pid if self.process else None})"[:200])
            raise

    cancel._c17 = True
    P.PopenFuture.cancel = cancel


def real_worker(task):
    _imports()
    mode, lo, hi, seed = task
    res = new_result()
    import psutil

    P.Popen, P.psutil = subprocess.Popen, psutil
    watch_cancel()
    for idx in range(lo, hi):
        rng = random.Random(f"c17-{seed}-real-{idx}")
        del CANCEL_LOG[:]
        mark = f"VERIF_C17_MARK_{os.getpid()}_{idx}_{rng.getrandbits(32):08x}"
        os.environ["VERIF_C17_MARK"] = mark
        ex = P.PopenExecutor()
        nthreads = rng.choice([1, 2, 4])
        per = rng.choice([1, 2, 4])
        wrappers = rng.random() < 0.4
        kinds = [rng.choice([k for k in STUBS if wrappers or k != "children"]) for _ in range(nthreads * per)]
        recs = []
        lock = threading.Lock()
        shutdown_done = threading.Event()

        def submitter(t):
            for i in range(per):
                kind = kinds[t * per + i]
                f = P.PopenFuture(["sh", "-c", STUBS[kind]], timeout=rng.choice([None, None, 0.2]) if kind in ("slow", "stubborn") else None)
                rec = dict(kind=kind, cb=0, accepted=None, outcome=None, after_shutdown=shutdown_done.is_set(), timeout=f.timeout)

                def cb(fut, rec=rec):
                    rec["cb"] += 1

                f.add_done_callback(cb)
                try:
                    ex.submit(f)
                    rec["accepted"] = True
                    rec["future"] = f
                except P.ShutdownError:
                    rec["accepted"] = False
                with lock:
                    recs.append(rec)
                time.sleep(rng.choice([0, 0, 0.001, 0.01]))

        ths = [threading.Thread(target=submitter, args=(t,)) for t in range(nthreads)]
        for t in ths:
            t.start()
        calm = rng.random() < 0.25
        established = True
        if calm:
            # no race: every job without a time limit that ends by itself is awaited first; its output must be complete
            for t in ths:
                t.join()
            for rec in list(recs):
                if rec["accepted"] and rec["kind"] in ("fast", "big", "mid"):
                    try:
                        out = rec["future"].result(timeout=30)
                    except TimeoutError:
                        res["violations"].append(dict(what="a job that ends by itself (no time limit, no shutdown) never delivered its result within 30 s", key="real-job-never-completes:" + rec["kind"],
                                                      kind=rec["kind"], index=idx, mode="real"))
                        continue
                    want = {"fast": "unsat\n", "mid": "unsat\n", "big": "\0" * 200000}[rec["kind"]]
                    res["counters"]["calm_results_checked"] += 1
                    if out != (want, "", 0):
                        res["violations"].append(dict(what="a job that ended normally delivered a wrong result", key="real-wrong-result", kind=rec["kind"], got=(out[0][:40], out[1][:40], out[2]), index=idx, mode="real"))
        if wrappers:
            # (also in calm runs: a shutdown that arrives while a wrapper is still forking is the known finding, probed separately)
            for t in ths:
                t.join()
            want = 2 * sum(1 for r in recs if r["accepted"] and r["kind"] == "children")
            nsleeps = lambda: sum(1 for c in marker_cmdlines(mark) if c in ("sleep 40", "sleep 41"))
            t_w = time.time() + 8.0
            while time.time() < t_w and nsleeps() < want:
                time.sleep(0.01)
            established = nsleeps() >= want
            res["counters"]["real_runs_with_established_trees" if established else "real_runs_tree_not_established"] += 1
            time.sleep(rng.choice([0, 0.01, 0.3]))
        elif not calm:
            time.sleep(rng.choice([0, 0, 0.0005, 0.002, 0.01, 0.05, 0.3]))
        t0 = time.time()
        ex.shutdown(wait=False)
        shutdown_done.set()
        dt = time.time() - t0
        for t in ths:
            t.join()
        res["counters"]["evaluations"] += 1
        res["counters"]["real_runs"] += 1
        res["counters"]["real_jobs"] += len(recs)
        wit = dict(index=idx, mode="real", kinds=kinds, threads=nthreads)
        # late submit
        try:
            ex.submit(P.PopenFuture(["sh", "-c", "sleep 30"]))
            res["violations"].append(dict(what="a job submitted after shutdown() had returned was accepted (real processes)", key="real-late-submit-accepted", **wit))
        except P.ShutdownError:
            res["counters"]["late_submits"] += 1
        # grace period (until the wrappers of all accepted jobs have exited, then 1.5 s), then no marked process may be alive
        if not wait_wrappers_gone([r["future"] for r in recs if r["accepted"]]):
            res["counters"]["real_runs_wrappers_not_gone_within_12s"] += 1
        t_end = time.time() + 1.5
        alive = marker_alive(mark)
        while alive and time.time() < t_end:
            time.sleep(0.05)
            alive = marker_alive(mark)
        if alive and not established:
            res["counters"]["real_survivors_not_judged_tree_not_established"] += 1
            for pid in alive:
                try:
                    os.kill(pid, 9)
                except OSError:
                    pass
        elif alive:
            cmds = []
            for pid in alive:
                try:
                    cmds.append(open(f"/proc/{pid}/cmdline", "rb").read().replace(b"\0", b" ").decode()[:80])
                except OSError:
                    pass
            res["violations"].append(dict(what="solver processes are still running 1.5 s after shutdown(wait=False) returned (real processes)", key="real-survivor", survivors=cmds[:6], cancel_exceptions=list(CANCEL_LOG)[:5],
                                          records=[{k: str(v) for k, v in r.items() if k != "future"} for r in recs][:8], **wit))
            for pid in alive:
                try:
                    os.kill(pid, 9)
                except OSError:
                    pass
        else:
            res["counters"]["shutdowns_with_no_survivor"] += 1
        # every accepted future delivers within the bound
        for rec in recs:
            res["features"]["real:" + rec["kind"]] += 1
            if not rec["accepted"]:
                res["counters"]["jobs_refused"] += 1
                continue
            res["counters"]["jobs_accepted"] += 1
            f = rec.pop("future")
            try:
                out = f.result(timeout=8)
                rec["outcome"] = ("result", out[2], len(out[0] or ""))
            except subprocess.TimeoutExpired:
                rec["outcome"] = ("timeout-expired",)
                res["counters"]["timeouts_delivered"] += 1
            except TimeoutError:
                rec["outcome"] = ("never-returned",)
            except Exception as e:  # noqa  (e.g. EBADF when cancel() closed the pipes under communicate(): documented as benign)
                rec["outcome"] = ("exception", type(e).__name__, str(e)[:60])
                res["counters"]["real_exceptions_delivered:" + type(e).__name__] += 1
        for rec in recs:
            if rec["accepted"]:
                if rec["outcome"] == ("never-returned",) and not alive:
                    if os.environ.get("C17_DEBUG"):
                        import faulthandler
                        faulthandler.dump_traceback(file=open("/root/scratch/c17-stacks.txt", "a"), all_threads=True)
                    res["violations"].append(dict(what="waiting on an accepted job did not return within 8 s although no process is alive", key="real-waiter-blocked", rec=str(rec), **wit))
                if rec["outcome"] != ("never-returned",):
                    time.sleep(0)
                    if rec["cb"] != 1:
                        res["violations"].append(dict(what="done-callback ran %d times (real processes)" % rec["cb"], key="real-callback-count", rec=str(rec), **wit))
                    else:
                        res["counters"]["callbacks_exactly_once"] += 1
        res["distinct"].append(f"real:{idx}")
        if idx % 17 == 0:
            res["samples"].append(dict(wit, shutdown_seconds=round(dt, 3), records=[{k: str(v) for k, v in r.items()} for r in recs][:6]))
    return res


def probe_fork_during_cancel(task):
    """dedicated probe of the known finding: cancel() enumerates the process tree once (psutil children()) and signals what it saw; a
    child forked by a solver wrapper after the enumeration is re-parented when the wrapper dies and keeps running"""
    _imports()
    import psutil

    P.Popen, P.psutil = subprocess.Popen, psutil
    watch_cancel()
    res = new_result()
    orphans = 0
    for i in range(30):
        del CANCEL_LOG[:]
        mark = f"VERIF_C17_PROBE_{os.getpid()}_{i}"
        os.environ["VERIF_C17_MARK"] = mark
        ex = P.PopenExecutor()
        fut = P.PopenFuture(["sh", "-c", "sleep 30 & sleep 31 & sleep 32 & sleep 33 & wait"])
        ex.submit(fut)
        time.sleep([0, 0.0005, 0.001, 0.002, 0.003][i % 5])
        ex.shutdown(wait=False)
        gone = wait_wrappers_gone([fut])
        time.sleep(0.2)
        alive = marker_alive(mark)
        wrapper = fut.process.pid if fut.process is not None else None
        cmds = []
        for pid in alive:
            try:
                cmds.append(open(f"/proc/{pid}/cmdline", "rb").read().replace(b"\0", b" ").decode().strip())
                os.kill(pid, 9)
            except OSError:
                pass
        if alive and wrapper not in alive:
            orphans += 1
        elif alive:
            res["violations"].append(dict(what="the solver wrapper itself survived shutdown(wait=False) (real processes)", key="real-survivor-parent", survivors=cmds, cancel_exceptions=list(CANCEL_LOG)[:5], index=i, mode="probe"))
        res["counters"]["probe_runs"] += 1
    res["counters"]["probe_orphans_after_cancel_during_fork"] += orphans
    return res


def worker(task):
    if task[0] == "probe":
        return probe_fork_during_cancel(task)
    return real_worker(task) if task[0] == "real" else sim_worker(task)


def main():
    run = Run("C17", "exploration")
    _imports()
    run.rule = ("simulated process table + controlled scheduler over the line events of halmos/processes.py: random / sticky schedules and systematic bounded-preemption enumeration (every single forced switch of a "
                "non-preemptive baseline, sampled pairs) over generated scenarios of 1-3 jobs, shutdown(wait=False|True), direct cancel, late submit, clients through executor.submit and solve_low_level; plus runs "
                "with real sh subprocesses tagged by an environment marker; non-trivial = distinct interleaving (hash of the choice list) or distinct real run")
    run.assumptions = ["a granted thread that does not reach its next line event within 4 ms is treated as blocked (lock / Future.result / join) and keeps running in the background",
                       "simulated psutil: signalling a vanished process raises NoSuchProcess; children of a process outlive it unless signalled"]
    if run.replay:
        w = json.load(open(run.replay))["witness"]
        res = new_result()
        res2 = worker((w.get("mode", "random"), int(w["index"]), int(w["index"]) + 1, run.seed))
        run.merge(res2)
        run.finish()
    nr, ns, nreal = run.n(320, 8000), run.n(6, 120), run.n(60, 1500)
    tasks = [("random", lo, min(nr, lo + 8), run.seed) for lo in range(0, nr, 8)]
    tasks += [("systematic", i, i + 1, run.seed) for i in range(ns)]
    run_pool(run, worker, tasks, soft_timeout=1500)
    # the runs with real subprocesses use fresh worker processes that never ran a simulated schedule (no leftover threads, no patched module)
    tasks = [("real", lo, min(nreal, lo + 4), run.seed) for lo in range(0, nreal, 4)]
    tasks += [("probe", 0, 0, run.seed)]
    run_pool(run, worker, tasks, soft_timeout=1500)
    if run.counters.get("probe_orphans_after_cancel_during_fork", 0):
        run.known_finding("process-tree-enumerated-once-children-forked-during-cancel-survive",
                          "%d of %d immediate shutdowns of a forking wrapper left orphaned children" % (run.counters["probe_orphans_after_cancel_during_fork"], run.counters.get("probe_runs", 0)))
    run.require("probe_runs", 30)
    run.require("schedules", 500)
    run.require("jobs_accepted", 400)
    run.require("callbacks_exactly_once", 200)
    run.require("timeouts_delivered", 30)
    run.require("shutdowns_with_no_survivor", 100)
    run.require("late_submits", 50)
    run.require("real_runs", 40)
    run.finish()


if __name__ == "__main__":
    main()
