"""C04 — counterexamples marked valid are reproducible.

For the failing tests of the generated grammar (including guards that need refinement of
mul/div/mod/sdiv/addmod/mulmod and EXP, which cannot be refined), every reported model is
 (1) compared name-by-name with an independent parse of the solver's own output file (.smt2.out);
 (2) if marked valid: turned into concrete ABI arguments and replayed on the reference EVM (deploy ->
     setUp -> test): the replay must end in the reported assertion failure;
 (3) if marked valid: the solver output it came from must not define any f_evm_* abstraction; a model whose
     output still depends on an abstraction must be labelled potentially invalid."""

import glob
import json
import os
import random
import shutil

import report
from report import Run, new_result, run_pool


def _imports():
    global A, testgen, e2e
    import artifacts as A
    import e2e
    import testgen


KINDS = ["xor_add", "mul", "div", "mod", "sdiv", "addmod", "mulmod", "exp", "exp", "bytes_len", "bytes_tail", "arr_sum", "two_args", "storage", "signed", "shift",
         "nested_assert", "conj3", "arr_loop", "loop_guard", "smod_zero", "mod_zero", "div_zero", "sdiv_zero", "addmod_zero", "mulmod_zero",
         "mul_exp", "mul_exp", "two_fail", "two_fail", "multi_width", "multi_width", "vmassert_hard", "arr_len_mul", "div_zero_hit", "mod_zero_hit", "sdiv_zero_hit", "smod_zero_hit"]


def case(seed, idx, res, tier):
    rng = random.Random(f"c04-{seed}-{idx}")
    symbolic_setup = rng.random() < 0.35
    spec, setup, tests = testgen.gen_contract(rng, 3, kinds=KINDS, force_first=sorted(set(KINDS))[idx % len(set(KINDS))], symbolic_setup=symbolic_setup)
    res["features"][f"symbolic_setup:{symbolic_setup}"] += 1
    solver = "z3" if rng.random() < 0.15 else "yices"
    codes = set() if rng.random() < 0.2 else {1, 0x11}
    ov = dict(solver=solver, panic_error_codes=set(codes), loop=5, storage_layout=rng.choice(["solidity", "generic"]))
    if rng.random() < 0.3:
        ov["cache_solver"] = True
        res["features"]["cache_solver"] += 1
    res["features"][f"solver:{solver}"] += 1
    out, d = e2e.run_contract_case(rng, spec, setup, tests, overrides=ov, dump=True)
    try:
        res["counters"]["contracts"] += 1
        if out.exception or len(out.results) != len(tests):
            res["counters"]["run_contract_failed"] += 1
            return
        for t, r in zip(tests, out.results):
            res["counters"]["tests"] += 1
            res["features"][f"verdict:{r.exitcode}"] += 1
            fdir = os.path.join(d, t.fn.name)
            outs = {}
            for f in glob.glob(os.path.join(fdir, "*.smt2.out")):
                vals, txt = e2e.read_model_file(f)
                outs[f] = (vals or {}, txt)
            if glob.glob(os.path.join(fdir, "*.refined.smt2")):
                res["counters"]["refinements_observed"] += 1
            for m in r.models or []:
                res["counters"]["evaluations"] += 1
                res["counters"]["models_checked"] += 1
                res["counters"]["models_valid" if m.is_valid else "models_invalid"] += 1
                wit = dict(index=idx, test=t.fn.sig, kind=t.kind, failure=t.failure, config={k: str(v) for k, v in ov.items()},
                           model={k: hex(v.value) for k, v in m.model.items()}, is_valid=m.is_valid)
                # (1) printed values are the solver's
                matching = []
                for f, (vals, txt) in outs.items():
                    if all(k in vals and vals[k][1] == v.value and vals[k][0] == v.size_bits for k, v in m.model.items()):
                        matching.append(f)
                res["counters"]["model_files_compared"] += len(outs)
                for k, v in m.model.items():
                    res["features"]["model-var-width:%d" % v.size_bits] += 1
                if not matching:
                    res["violations"].append(dict(what="the reported counterexample values are not those of any solver output", key="values-differ",
                                                  solver_outputs={os.path.basename(f): {k: hex(v[1]) for k, v in vals.items() if k.startswith("p_")} for f, (vals, txt) in outs.items()}, **wit))
                    continue
                # (3) labelling
                abstract = all("f_evm_" in outs[f][1] for f in matching)
                if m.is_valid and abstract:
                    res["violations"].append(dict(what="a model whose solver output still defines an f_evm_ abstraction is labelled valid", key="valid-with-abstraction",
                                                  files=[os.path.basename(f) for f in matching], **wit))
                    continue
                if not m.is_valid:
                    res["counters"]["invalid_models_not_replayed"] += 1
                    if t.abstraction_in_model:
                        res["counters"]["exp_models_labelled_invalid"] += 1
                    continue
                # (2) replay
                vals = A.model_values(t.fn, m)
                tape = None
                if symbolic_setup:
                    # setUp creates two fresh symbols (s: stored, constrained s > 100; u: not stored, constrained u == 7): the counterexample has to
                    # give them values that pass setUp's assumptions; a symbol the model does not mention reads 0
                    byname = {k: v.value for k, v in m.model.items()}
                    tape = [next((v for k, v in byname.items() if k.startswith("halmos_s_uint256")), 0), next((v for k, v in byname.items() if k.startswith("halmos_u_uint256")), 0)]
                    res["counters"]["replays_with_symbolic_setup"] += 1
                rp = A.replay(spec, t.fn, vals, setup_fn=setup, tape=tape)
                res["counters"]["replays"] += 1
                res["distinct"].append(f"{idx}:{t.fn.sig}:{sorted((k.split('_')[1], v.value) for k, v in m.model.items())}")
                if rp.status == "unsupported":
                    res["counters"]["replay_unsupported"] += 1
                    continue
                if not rp.fails(codes):
                    res["violations"].append(dict(what="a counterexample marked valid does not reproduce the failure on the reference EVM", key=f"not-reproducible:{t.kind}",
                                                  replay=dict(status=rp.status, panic=rp.panic_code, failed_flag=rp.failed_flag, args=[v.hex() if isinstance(v, bytes) else v for v in vals]), **wit))
            if idx % 29 == 0 and r.models:
                res["samples"].append(dict(index=idx, test=t.fn.sig, kind=t.kind, solver=solver, models=[dict(valid=m.is_valid, values={k: hex(v.value) for k, v in m.model.items()}) for m in r.models]))
    finally:
        if d:
            shutil.rmtree(d, ignore_errors=True)


def worker(task):
    _imports()
    lo, hi, seed, tier = task
    res = new_result()
    for idx in range(lo, hi):
        case(seed, idx, res, tier)
    return res


def main():
    run = Run("C04", "exploration")
    _imports()
    run.rule = ("failing tests of the generated grammar (refinement-needing guards over mul/div/mod/sdiv/addmod/mulmod, un-refinable EXP, dynamic parameters, nested failures) solved by "
                "yices and z3; every reported model compared with the solver output and, if valid, replayed; non-trivial = distinct (test, model) replayed on the reference EVM")
    run.assumptions = ["failing paths use no hash/gas/precompile abstraction over symbolic data", "independent SMT-LIB model reader in lib/e2e.py"]
    if run.replay:
        w = json.load(open(run.replay))["witness"]
        res = new_result()
        case(run.seed, w["index"], res, run.tier)
        run.merge(res)
        run.finish()
    n = run.n(100, 3000)
    tasks = [(lo, min(n, lo + 3), run.seed, run.tier) for lo in range(0, n, 3)]
    run_pool(run, worker, tasks, soft_timeout=900)
    run.require("models_checked", 100)
    run.require("replays", 80)
    run.require("refinements_observed", 10)
    run.require("exp_models_labelled_invalid", 3)
    run.finish()


if __name__ == "__main__":
    main()
