"""C19 dynamic part: jump programs through SEVM.run vs the reference EVM.

A program is  [PUSH c] PUSH2 t JUMP|JUMPI  followed by a body of 'landing pads'
(JUMPDEST PUSH1 id PUSH0 MSTORE PUSH1 32 PUSH0 RETURN) interleaved with PUSHn instructions
whose immediate data contains 0x5b bytes and truncated trailing PUSHes.  The target t ranges
over *every* offset of the program (and a few beyond).  Everything is concrete, so halmos
yields exactly one path whose outcome must equal the reference EVM's."""

import random

import refevm
from asm import asm


def gen_body(rng):
    parts = []
    nid = 1
    for _ in range(rng.randrange(2, 6)):
        k = rng.random()
        if k < 0.45:
            parts.append(asm([":x" + str(nid)])[:1] + asm([("push", nid, 1), 0, "MSTORE", 32, 0, "RETURN"]))
            nid += 1
        elif k < 0.8:
            n = rng.randrange(1, 33)
            data = bytes(rng.choice([0x5B, 0x5B, 0x00, 0x56, 0x60, rng.randrange(256)]) for _ in range(n))
            parts.append(bytes([0x5F + n]) + data + b"\x50")  # PUSHn data POP
        elif k < 0.9:
            parts.append(b"\x5b")  # bare jumpdest falling through
        else:
            parts.append(b"\xfe")
    body = b"".join(parts)
    if rng.random() < 0.4:  # truncated trailing PUSH (possibly with a 0x5b inside)
        n = rng.randrange(2, 33)
        have = rng.randrange(0, n)
        body += bytes([0x5F + n]) + bytes(rng.choice([0x5B, 0x01]) for _ in range(have))
    return body


def run(lo, hi, seed, res):
    import symrun
    from halmos.sevm import Contract

    rng = random.Random(f"c19dyn-{seed}-{lo}")
    for i in range(lo, hi):
        body = gen_body(rng)
        use_jumpi = rng.random() < 0.5
        cond = rng.choice([0, 1, 2, 2**255])
        head_len = (2 if use_jumpi and cond < 256 else 0) + 3 + 1
        if use_jumpi and cond >= 256:
            head_len = 33 + 3 + 1
        # optional re-entrant prefix with a JUMPDEST at offset 0: the first pass sets a memory flag,
        # a jump back to 0 then takes the exit pad (so jumping to destination 0 is observable)
        with_prefix = rng.random() < 0.35
        plen = 11 if with_prefix else 0
        total = plen + head_len + len(body) + (9 if with_prefix else 0)
        exit_at = plen + head_len + len(body)
        prefix = (bytes([0x5B, 0x5F, 0x51, 0x61]) + exit_at.to_bytes(2, "big") + bytes([0x57, 0x60, 0x01, 0x5F, 0x52])) if with_prefix else b""
        suffix = bytes([0x5B, 0x60, 0xEE, 0x5F, 0x52, 0x60, 0x20, 0x5F, 0xF3]) if with_prefix else b""
        # after a not-taken JUMPI execution falls into the body
        targets = list(range(0, total + 2))
        if len(targets) > 24:
            # all jumpdest bytes (valid or hidden) + a random sample of the rest
            interesting = [plen + head_len + j for j, b in enumerate(body) if b == 0x5B]
            targets = sorted(set(interesting + rng.sample(targets, 12) + [total, total + 1, 0, plen + head_len - 1, exit_at]))
        for t in targets:
            src = []
            if use_jumpi:
                src.append(("push", cond, 1 if cond < 256 else 32))
            src.append(("push", t, 2))
            src.append("JUMPI" if use_jumpi else "JUMP")
            code = prefix + asm(src) + body + suffix
            assert len(code) == total, (len(code), total)
            if with_prefix and t == 0:
                res["counters"]["jump_to_offset_zero"] += 1
            res["counters"]["jump_programs"] += 1
            res["counters"]["evaluations"] += 1
            # reference
            W = refevm.World()
            W.get(0x1000).code = code
            ev = refevm.EVM(W, origin=0x2000, step_budget=5000)
            try:
                ok, ret, kind = ev.call(0x1000, 0x2000, 0, b"", transfer=False)
            except (refevm.StepBudget, refevm.Unsupported):
                res["counters"]["jump_ref_skipped"] += 1
                continue
            # all exceptional halts are one observable outcome in the EVM (which check fires first is not observable)
            want = ("ok", ret) if ok else (("revert", ret) if kind == "revert" else ("halt", b""))
            r = symrun.run_symbolic({0x1000: code}, ncd=0, concrete=dict(cd=[], caller=0x2000, origin=0x2000, value=0))
            if r.crash or len(r.paths) != 1:
                res["violations"].append(dict(what="jump program: crash or path count != 1", key="jump-crash",
                                              code=code.hex(), target=t, crash=r.crash, npaths=len(r.paths)))
                continue
            p = r.paths[0]
            out = p.out if isinstance(p.out, bytes) else (b"" if p.out is None else None)
            kindmap = {None: "ok", "InvalidJumpDestError": "badjump", "InvalidOpcode": "invalid",
                       "StackUnderflowError": "underflow", "Revert": "revert", "OutOfGasError": "oog",
                       "StackOverflowError": "overflow", "OutOfBoundsRead": "oob", "WriteInStaticContext": "static"}
            if p.stuck and kind == "invalid" and "Unsupported opcode" in (p.errmsg or ""):
                # an undefined opcode byte: halmos stops the path with an error (reported, fail-safe) where the EVM halts
                res["counters"]["undefined_opcode_stuck"] += 1
                continue
            gk = kindmap.get(p.error, p.error)
            got = (gk if gk in ("ok", "revert") else ("halt" if not p.stuck else "stuck:" + str(p.error)), out if p.error is None or gk == "revert" else b"")
            taken = (not use_jumpi) or cond != 0
            if taken and kind == "badjump":
                res["counters"]["jump_rejected_invalid"] += 1
            elif taken:
                res["counters"]["jump_taken_valid"] += 1
            else:
                res["counters"]["jumpi_not_taken"] += 1
            if got != want:
                res["violations"].append(dict(what="jump program outcome differs from the EVM", key="jump-outcome",
                                              code=code.hex(), target=t, got=[got[0], (got[1] or b"").hex() if got[1] is not None else None],
                                              want=[want[0], want[1].hex()]))
        if i % 40 == 0:
            res["samples"].append({"kind": "jump-program", "code": code.hex(), "targets": len(targets)})


def run_codecopy(lo, hi, seed, res):
    """CODECOPY / EXTCODECOPY across and beyond the end of the code into memory that already holds non-zero bytes: everything past the end
    reads as zero (the destination is overwritten with zeros, it does not keep its old contents), also for huge offsets; the copied region,
    returned as the runtime of a creation, has the jump destinations of the bytes actually copied"""
    import symrun

    rng = random.Random(f"c19cc-{seed}-{lo}")
    for i in range(lo, hi):
        filler = bytes(rng.choice([0x5B, 0xFF, 0x60, 0x01]) for _ in range(rng.randrange(0, 24)))
        ext = rng.random() < 0.3
        size = rng.choice([32, 64, 33, 1])
        pre = []
        for off in range(0, 96, 32):
            pre += [("push", int.from_bytes(bytes([rng.choice([0x5B, 0xFF])]) * 32, "big"), 32), off, "MSTORE"]
        # the copy source offset is patched in below, relative to the end of the code
        for rel in (-8, -1, 0, 1, 40, 2**20, 2**64, 2**256 - 1):
            def build(src_off):
                body = pre + ([size, ("push", src_off % 2**256, 32), 0, ("push", 0x1000, 20), "EXTCODECOPY"] if ext else [size, ("push", src_off % 2**256, 32), 0, "CODECOPY"]) + [96, 0, "RETURN"]
                return asm(body) + filler
            n = len(build(0))
            src = n + rel if rel < 2**20 else rel
            if src < 0:
                continue
            code = build(src)
            assert len(code) == n
            res["counters"]["codecopy_programs"] += 1
            res["counters"]["evaluations"] += 1
            if src + size > n:
                res["counters"]["codecopy_past_end"] += 1
            W = refevm.World()
            W.get(0x1000).code = code
            ev = refevm.EVM(W, origin=0x2000, step_budget=5000)
            ok, ret, kind = ev.call(0x1000, 0x2000, 0, b"", transfer=False)
            r = symrun.run_symbolic({0x1000: code}, ncd=0, concrete=dict(cd=[], caller=0x2000, origin=0x2000, value=0))
            if r.crash or len(r.paths) != 1:
                res["violations"].append(dict(what="codecopy program: crash or path count != 1", key="codecopy-crash", code=code.hex(), src=hex(src), crash=r.crash, npaths=len(r.paths)))
                continue
            p = r.paths[0]
            got = p.out if isinstance(p.out, bytes) else None
            if not ok or p.error is not None or got != ret:
                res["violations"].append(dict(what="bytes copied from (beyond) the end of the code differ from the EVM (past the end reads as zero)", key="codecopy-past-end",
                                              code=code.hex(), src=hex(src), size=size, ext=ext, got=None if got is None else got.hex(), want=ret.hex(), error=p.error))
        if i % 25 == 0:
            res["samples"].append({"kind": "codecopy-program", "code": code.hex()[:200]})


def run_repeat(lo, hi, seed, res):
    """the same jump, attempted several times on the same code object: Contract objects are shared between paths, calls, transactions and
    tests, so whatever a rejected (or accepted) jump leaves behind in them must not change the verdict on the next attempt.
    (a) 0x1000 calls the jump program at 0x1001 three times and returns the three success flags and return words;
    (b) the two arms of a symbolic JUMPI both make the same jump (two paths, each must end like the reference run)."""
    import symrun

    rng = random.Random(f"c19rep-{seed}-{lo}")
    for i in range(lo, hi):
        body = gen_body(rng)
        hidden = [j for j, b in enumerate(body) if b == 0x5B]
        # (a) repeated calls
        head_len = 3 + 1
        targets = sorted(set([head_len + j for j in hidden] + [head_len + rng.randrange(len(body) + 2) for _ in range(3)]))
        if len(targets) > 8:
            targets = sorted(rng.sample(targets, 8))
        outer = []
        for k in range(3):
            outer += [32, 96 + 32 * k, 0, 0, 0, ("push", 0x1001, 20), 0xFFFF, "CALL", 32 * k, "MSTORE"]
        outer += [192, 0, "RETURN"]
        outer_code = asm(outer)
        for t in targets:
            inner = asm([("push", t, 2), "JUMP"]) + body
            res["counters"]["repeat_programs"] += 1
            res["counters"]["evaluations"] += 1
            W = refevm.World()
            W.get(0x1000).code = outer_code
            W.get(0x1001).code = inner
            ev = refevm.EVM(W, origin=0x2000, step_budget=20000)
            try:
                ok, ret, kind = ev.call(0x1000, 0x2000, 0, b"", transfer=False)
            except (refevm.StepBudget, refevm.Unsupported):
                res["counters"]["jump_ref_skipped"] += 1
                continue
            if b"\xfe" in inner or not ok:
                # an undefined/INVALID byte may stop halmos' path (reported); keep to programs whose inner runs end in a defined way
                pass
            r = symrun.run_symbolic({0x1000: outer_code, 0x1001: inner}, ncd=0, concrete=dict(cd=[], caller=0x2000, origin=0x2000, value=0))
            if r.crash:
                res["violations"].append(dict(what="repeated jump program: crash", key="repeat-crash", code=inner.hex(), target=t, crash=r.crash))
                continue
            if len(r.paths) != 1 or r.paths[0].stuck:
                res["counters"]["repeat_stuck_or_forked"] += 1
                continue
            p = r.paths[0]
            got = p.out if isinstance(p.out, bytes) else None
            flags = [int.from_bytes(ret[32 * k : 32 * k + 32], "big") for k in range(3)]
            res["counters"]["repeat_calls_rejected" if flags[0] == 0 else "repeat_calls_succeeded"] += 1
            if p.error is not None or got != ret:
                res["violations"].append(dict(what="the same call repeated on the same code object ends differently from the EVM (state left behind in the shared Contract)",
                                              key="repeat-call", code=inner.hex(), target=t, got=None if got is None else got.hex(), want=ret.hex(), error=p.error))
        # (b) both arms of a symbolic branch make the same jump
        head2 = asm([4, "CALLDATALOAD", "@arm", "JUMPI", ("push", 0, 2), "JUMP", ":arm", ("push", 0, 2), "JUMP"])
        h2 = len(head2)
        targets = sorted(set([h2 + j for j in hidden] + [h2 + rng.randrange(len(body) + 1)]))
        if len(targets) > 6:
            targets = sorted(rng.sample(targets, 6))
        for t in targets:
            code = asm([4, "CALLDATALOAD", "@arm", "JUMPI", ("push", t, 2), "JUMP", ":arm", ("push", t, 2), "JUMP"]) + body
            assert len(code) == h2 + len(body)
            res["counters"]["repeat_programs"] += 1
            res["counters"]["evaluations"] += 1
            wants = []
            try:
                for cdv in (0, 1):
                    W = refevm.World()
                    W.get(0x1000).code = code
                    ev = refevm.EVM(W, origin=0x2000, step_budget=5000)
                    ok, ret, kind = ev.call(0x1000, 0x2000, 0, bytes(4) + cdv.to_bytes(32, "big"), transfer=False)
                    wants.append(("ok", ret) if ok else (("revert", ret) if kind == "revert" else ("halt", b"")))
            except (refevm.StepBudget, refevm.Unsupported):
                res["counters"]["jump_ref_skipped"] += 1
                continue
            if wants[0] != wants[1]:
                continue
            r = symrun.run_symbolic({0x1000: code}, ncd=1)
            if r.crash:
                res["violations"].append(dict(what="repeated jump program: crash", key="repeat-crash", code=code.hex(), target=t, crash=r.crash))
                continue
            if len(r.paths) != 2 or any(p.stuck for p in r.paths):
                res["counters"]["repeat_stuck_or_forked"] += 1
                continue
            res["counters"]["repeat_two_arm_runs"] += 1
            for p in r.paths:
                out = p.out if isinstance(p.out, bytes) else (b"" if p.out is None else None)
                gk = "ok" if p.error is None else ("revert" if p.error == "Revert" else "halt")
                got = (gk, out if gk in ("ok", "revert") else b"")
                if got != wants[0]:
                    res["violations"].append(dict(what="two paths making the same jump end differently (state left behind in the shared Contract)", key="repeat-arms",
                                                  code=code.hex(), target=t, got=[got[0], None if got[1] is None else got[1].hex()], want=[wants[0][0], wants[0][1].hex()]))
                    break
