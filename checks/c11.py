"""C11 — the solver query equals the path's constraints; refinement is exact.

Monitors (attached from the harness, in the harness process): wrappers on Path.to_smt2, halmos.solve.refine
and halmos.solve.dump record, for every query halmos writes, the live path.conditions, the SMTQuery and the
text of the dumped file.  After the run (in the main thread) every dumped file is re-parsed by z3 in a fresh
context and compared with the conjunction C of the recorded conditions:
   plain:    Q & ~C unsat  and  C & ~Q unsat
   cached:   Q' & ~C unsat and (C & all ids) & ~Q' unsat, and the named ids are exactly query.assertions
   refined:  the same against C with every f_evm_bv* replaced by *our* exact definition (div/rem by zero = 0);
             every f_evm_bv{mul,udiv,urem,sdiv,srem}_N declared before must be defined after, f_evm_exp stays
             declared, and apart from those lines the text is unchanged."""

import json
import os
import random
import re
import shutil
import threading

import z3

import report
from report import Run, new_result, run_pool


def _imports():
    global A, testgen, e2e, pathmodel, solve_mod, sevm_mod
    import artifacts as A
    import e2e
    import pathmodel
    import testgen
    import halmos.sevm as sevm_mod
    import halmos.solve as solve_mod


REC = {"queries": {}, "refined": {}, "dumps": [], "lock": threading.Lock(), "on": False, "parents": {}, "pollution": []}
_installed = False


def install_monitors():
    global _installed
    if _installed:
        return
    _installed = True
    orig_to_smt2 = sevm_mod.Path.to_smt2
    orig_refine = solve_mod.refine
    orig_dump = solve_mod.dump

    def to_smt2(self, args):
        q = orig_to_smt2(self, args)
        if REC["on"]:
            with REC["lock"]:
                REC["queries"][id(q)] = dict(query=q, conds=list(self.conditions), cache=bool(args.cache_solver), sliced=self.sliced is not None)
        return q

    def refine(query):
        q2 = orig_refine(query)
        if REC["on"]:
            with REC["lock"]:
                REC["refined"][id(q2)] = (q2, query)
        return q2

    def dump(path_ctx):
        r = orig_dump(path_ctx)
        if REC["on"]:
            try:
                text = path_ctx.dump_file.read_text()
            except OSError:
                text = None
            with REC["lock"]:
                REC["dumps"].append(dict(query=path_ctx.query, refined=path_ctx.is_refined, text=text, file=str(path_ctx.dump_file), cache=bool(path_ctx.args.cache_solver)))
        return r

    orig_sll = solve_mod.solve_low_level

    def solve_low_level(path_ctx):
        # what the solver is actually run on: the text of the query file at the time of the call (not only what dump() wrote:
        # the file may have been left there by something else)
        r = orig_sll(path_ctx)
        if REC["on"]:
            try:
                text = path_ctx.dump_file.read_text()
            except OSError:
                text = None
            with REC["lock"]:
                if not any(dd["file"] == str(path_ctx.dump_file) and dd["text"] == text for dd in REC["dumps"]):
                    REC["dumps"].append(dict(query=path_ctx.query, refined=path_ctx.is_refined, text=text, file=str(path_ctx.dump_file), cache=bool(path_ctx.args.cache_solver), solved=True))
                    REC["solved_files_not_dumped"] = REC.get("solved_files_not_dumped", 0) + 1
        return r

    orig_extend = sevm_mod.Path.extend_path

    def extend_path(self, path):
        # the path of a start state (post-setUp state, frontier state) is finished: whatever transactions are started from it, its own
        # conditions never change.  Snapshot at first use, compare at every later use (the parent object is kept alive, so ids are stable).
        if REC["on"]:
            snap = tuple(c.get_id() for c in path.conditions)
            with REC["lock"]:
                old = REC["parents"].get(id(path))
                if old is None:
                    REC["parents"][id(path)] = (path, snap)
                elif old[1] != snap:
                    REC["pollution"].append(dict(before=len(old[1]), after=len(snap), added=[str(c)[:160] for c in list(path.conditions)[len(old[1]):][:3]]))
        return orig_extend(self, path)

    sevm_mod.Path.extend_path = extend_path
    sevm_mod.Path.to_smt2 = to_smt2
    solve_mod.refine = refine
    solve_mod.dump = dump
    solve_mod.solve_low_level = solve_low_level
    import halmos.__main__ as main_mod

    main_mod.solve_low_level = solve_low_level


DECL_RE = re.compile(r"\(declare-fun (f_evm_[a-z]+_\d+) ")
DEF_RE = re.compile(r"\(define-fun (f_evm_[a-z]+_\d+) ")


def equivalent(ctx, Q, C, res, timeout=8000):
    """both directions; returns None if ok, else a description"""
    for name, a, b in (("query does not imply the path conditions (something was dropped or altered)", Q, C), ("path conditions do not imply the query (the query is stronger)", C, Q)):
        s = z3.Solver(ctx=ctx)
        s.set(timeout=timeout)
        s.add(a)
        s.add(z3.Not(b))
        r = s.check()
        res["counters"]["equivalence_obligations"] += 1
        if r == z3.unsat:
            res["counters"]["equivalence_discharged"] += 1
        elif r == z3.sat:
            return name + ": " + str(s.model())[:300]
        else:
            res["counters"]["equivalence_timeouts"] += 1
    return None


def check_dump(d, res, wit):
    text = d["text"]
    res["counters"]["evaluations"] += 1
    res["counters"]["queries_checked"] += 1
    mode = ("refined" if d["refined"] else "plain") + ("+cache" if d["cache"] else "")
    res["features"]["mode:" + mode] += 1
    if text is None:
        res["violations"].append(dict(what="dumped query file missing", key="missing-file", **wit))
        return
    q = d["query"]
    orig_q = q
    if d["refined"]:
        ent = REC["refined"].get(id(q))
        if ent is None:
            res["counters"]["refined_without_record"] += 1
            return
        orig_q = ent[1]
    rec = REC["queries"].get(id(orig_q))
    if rec is None:
        res["counters"]["dump_without_to_smt2_record"] += 1
        return
    if rec["sliced"] is False:
        pass
    conds = rec["conds"]
    # textual checks on abstractions
    if d["refined"]:
        before = set(DECL_RE.findall(orig_q.smtlib))
        after_decl = set(DECL_RE.findall(text))
        after_def = set(DEF_RE.findall(text))
        for f in before:
            res["features"]["abstraction:" + f] += 1
            if "_bv" in f and f not in after_def:
                res["violations"].append(dict(what=f"abstraction {f} is still uninterpreted after refinement", key="not-refined:" + f.split("_")[2], mode=mode, **wit))
                return
            if f.startswith("f_evm_exp") and f not in after_decl:
                res["violations"].append(dict(what="f_evm_exp must stay declared", key="exp-refined", mode=mode, **wit))
                return
        # nothing but the declare-fun -> define-fun lines changed
        a = [l for l in orig_q.smtlib.splitlines() if not l.startswith("(declare-fun f_evm_bv")]
        b = [l for l in q.smtlib.splitlines() if not l.startswith("(define-fun f_evm_bv")]
        if a != b:
            res["violations"].append(dict(what="refinement changed more than the abstraction declarations", key="refine-diff", mode=mode, **wit))
            return
        res["counters"]["refined_queries"] += 1
    ctx = z3.Context()
    try:
        # a named assertion (! t :named n) asserts t; z3's API parser would track it as an assumption instead of returning
        # it, so the naming (checked textually below) is stripped for parsing
        ptext = text.replace("(check-sat)", "").replace("(get-model)", "").replace("(get-unsat-core)", "").replace("(set-option :produce-unsat-cores true)", "")
        ptext = re.sub(r"\(assert \(! (\|\d+\|) :named <\d+>\)\)", r"(assert \1)", ptext)
        parsed = z3.parse_smt2_string(ptext, ctx=ctx)
    except z3.Z3Exception as e:
        res["violations"].append(dict(what="dumped query does not parse (sort / arity / declaration error)", key="parse", error=str(e)[:300], mode=mode, **wit))
        return
    Q = z3.And(*list(parsed)) if len(parsed) else z3.BoolVal(True, ctx)
    cs = pathmodel.exact_defs_many(conds) if d["refined"] else list(conds)
    C = z3.And(*[c.translate(ctx) for c in cs]) if cs else z3.BoolVal(True, ctx)
    if d["cache"]:
        # read as the code under test reads it (it may be iterated more than once: dump, unsat-core containment, refinement)
        q_ids = list(orig_q.assertions)
        q_ids_again = list(orig_q.assertions)
        if q_ids != q_ids_again:
            res["violations"].append(dict(what="query.assertions reads differently the second time (the named assertions vanish on a later read)", key="ids-one-shot", mode=mode, first=len(q_ids), second=len(q_ids_again), **wit))
            return
        ids = [z3.Bool(str(i), ctx) for i in q_ids]
        named = re.findall(r"\(assert \(! \|(\d+)\| :named <(\d+)>\)\)", text)
        if sorted(a for a, b in named) != sorted(q_ids) or any(a != b for a, b in named) or len(q_ids) != len(conds):
            res["violations"].append(dict(what="named assertions differ from query.assertions / the path conditions", key="named-ids", mode=mode, n_named=len(named), n_ids=len(q_ids), n_conds=len(conds), **wit))
            return
        if set(q_ids) != {str(c.get_id()) for c in conds}:
            res["violations"].append(dict(what="assertion ids are not the ids of the path conditions", key="ids-not-cond-ids", mode=mode, **wit))
            return
        C = z3.And(C, *ids) if ids else C
        res["counters"]["named_assertion_sets_checked"] += 1
    msg = equivalent(ctx, Q, C, res)
    if msg:
        res["violations"].append(dict(what=("refined " if d["refined"] else "") + "query is not equivalent to the path constraints: " + msg.split(":")[0], key=("refined-" if d["refined"] else "") + "not-equivalent:" + mode,
                                      detail=msg[:500], mode=mode, nconds=len(conds), sliced_parent=rec["sliced"], **wit))
    else:
        res["distinct"].append(hash(text))


KINDS = ["xor_add", "mul", "div", "mod", "sdiv", "addmod", "mulmod", "exp", "bytes_len", "arr_sum", "two_args", "storage", "signed", "conj3", "unsat",
         "smod_zero", "mod_zero", "div_zero", "sdiv_zero", "addmod_zero", "mulmod_zero", "storage2", "nested_assert",
         "multi_width", "multi_width", "mul_exp", "div_zero_hit", "mod_zero_hit", "sdiv_zero_hit", "smod_zero_hit", "two_fail"]


def smod_tests(rng):
    """every abstraction symbol at every width: MUL/DIV/MOD/SDIV/SMOD (256), ADDMOD (264), MULMOD (512), EXP"""
    return None


def case(seed, idx, res):
    rng = random.Random(f"c11-{seed}-{idx}")
    spec, setup, tests = testgen.gen_contract(rng, 3, kinds=KINDS, symbolic_setup=rng.random() < 0.6, force_first=sorted(set(KINDS))[idx % len(set(KINDS))])
    cache = rng.random() < 0.5
    ov = dict(cache_solver=cache, solver="yices", loop=3)
    REC["queries"].clear()
    REC["refined"].clear()
    del REC["dumps"][:]
    REC["parents"].clear()
    del REC["pollution"][:]
    REC["on"] = True
    stale_dir = None
    try:
        if rng.random() < 0.25:
            # the dump directory is not empty: an earlier run (another contract with the same test names, hence the same file names) left its
            # query files there; every query of this run must still be the one that is solved
            spec0, setup0, tests0 = testgen.gen_contract(random.Random(f"c11-stale-{seed}-{idx}"), 3, kinds=KINDS)
            REC["on"] = False
            out0, stale_dir = e2e.run_contract_case(rng, spec0, setup0, tests0, overrides=ov, dump=True)
            REC["on"] = True
            res["counters"]["runs_into_a_used_dump_directory"] += 1
            ov2 = dict(ov, dump_smt_directory=stale_dir)
            ctx_ = A.make_ctx(spec, funsigs=[t.fn.sig for t in tests], overrides=ov2)
            out, d = A.run(ctx_), stale_dir
        else:
            out, d = e2e.run_contract_case(rng, spec, setup, tests, overrides=ov, dump=True)
    finally:
        REC["on"] = False
    try:
        res["counters"]["contracts"] += 1
        if out.exception:
            res["counters"]["run_contract_failed"] += 1
            return
        res["counters"]["start_states_watched"] += len(REC["parents"])
        for pol in REC["pollution"][:1]:
            res["violations"].append(dict(what="the path conditions of a start state changed between two transactions started from it (constraints of one test leak into the next)",
                                          key="start-state-conditions-changed", index=idx, **pol))
        for dmp in list(REC["dumps"]):
            check_dump(dmp, res, dict(index=idx, file=os.path.basename(os.path.dirname(dmp["file"])) + "/" + os.path.basename(dmp["file"]), cache_solver=cache))
        if idx % 23 == 0 and REC["dumps"]:
            res["samples"].append(dict(index=idx, file=REC["dumps"][0]["file"].split("/")[-1], cache=cache, head=(REC["dumps"][0]["text"] or "")[:300]))
    finally:
        if d:
            shutil.rmtree(d, ignore_errors=True)
        REC["queries"].clear()
        REC["refined"].clear()
        del REC["dumps"][:]


def worker(task):
    _imports()
    install_monitors()
    lo, hi, seed = task
    res = new_result()
    for idx in range(lo, hi):
        case(seed, idx, res)
    return res


def main():
    run = Run("C11", "exploration")
    _imports()
    run.rule = ("every query written while running generated test contracts (regular paths extending a sliced setUp state that also holds constraints outside the slice; "
                "with and without --cache-solver; abstractions f_evm_bv{mul,udiv,urem,sdiv,srem}_{256,264,512} and f_evm_exp) re-parsed and compared with the live path conditions; "
                "non-trivial = distinct dumped query text proved equivalent in both directions")
    run.assumptions = ["z3 parser and solver (fresh context per query)", "exact definitions of the abstractions are ours (lib/pathmodel.py)"]
    if run.replay:
        w = json.load(open(run.replay))["witness"]
        res = new_result()
        install_monitors()
        case(run.seed, w["index"], res)
        run.merge(res)
        run.finish()
    n = run.n(96, 2500)
    tasks = [(lo, min(n, lo + 3), run.seed) for lo in range(0, n, 3)]
    run_pool(run, worker, tasks, soft_timeout=900)
    run.require("queries_checked", 200)
    run.require("refined_queries", 20)
    run.require("named_assertion_sets_checked", 50)
    run.require("equivalence_discharged", 300)
    for need in ("abstraction:f_evm_bvmul_256", "abstraction:f_evm_bvudiv_256", "abstraction:f_evm_bvurem_256", "abstraction:f_evm_bvsdiv_256", "abstraction:f_evm_bvurem_264", "abstraction:f_evm_bvurem_512", "abstraction:f_evm_bvmul_512"):
        if run.features.get(need, 0) < 1:
            run.inconclusive.append(f"{need} never refined in this run")
    run.finish()


if __name__ == "__main__":
    main()
