"""C02 — no feasible behaviour is dropped during exploration.

Monitors:
 1. coverage: every concrete input (random, boundary, mined constants +-1, models of every path) is
    admitted by some reported path, unless the run raised a bound / error flag or the input violates
    a documented assumption;
 2. every prune is justified: each `unsat` verdict returned by Exec.check (recorded with its call
    site) is re-decided independently; a satisfiable pruned alternative is turned into a concrete
    input and confirmed under real keccak / exact arithmetic;
 3. unknown never prunes: Path.check is made to answer `unknown` with probability p in
    {0.1, 0.5, 1.0} and with --solver-timeout-branching in {0, 1ms, 10s}; monitors 1-2 must still hold;
 4. auxiliary axioms never exclude a real input: every non-branching condition appended to a path that
    mentions an arithmetic abstraction is evaluated under exact semantics on sampled valuations."""

import json
import random

import z3

import report
from report import Run, new_result, run_pool


def _imports():
    global diffcore, gen, workloads, pathmodel, symrun, calltree, asm
    import calltree
    import diffcore
    import gen
    import pathmodel
    import symrun
    import workloads
    from asm import asm


MIX = {  # kind -> (quick, thorough)
    "single": (80, 4000),
    "single-loop3": (20, 800),
    "calls": (40, 2500),
    "alias": (30, 1500),
    "symjump": (20, 800),
    "calltree": (24, 1500),
    "creates": (12, 600),
    "symjump-revisit": (12, 400),
    "dealt-value-calls": (16, 500),
    "jump0": (8, 300),
    "hash-bound": (16, 500),
    "bool-ops": (24, 800),
}
UNKNOWN_PS = [0.0, 0.0, 0.1, 0.5, 1.0]
TIMEOUTS = [0.001, 0.001, 0.001, 0.001, 0, 0.3]


def make_case(kind, rng):
    if kind == "alias":
        addrs, contracts, feats = workloads.callee_pool(rng, n=2)
        g = gen.Gen(rng, calls=True, pool=tuple(addrs), stmts=(1, 4), depth=2, sym_call_target=0.8)
        src = g.call_stmt(2)
        # symbolic account operands of EXTCODESIZE / BALANCE / EXTCODEHASH as well
        src += g.out([4, "CALLDATALOAD", rng.choice(["EXTCODESIZE", "BALANCE", "EXTCODESIZE"])])
        src += g.program()
        contracts[0x1000] = asm(src)
        return diffcore.Case(contracts, label=kind, gen_features=sorted(g.features | feats | {"symbolic-account"}))
    if kind == "symjump":
        # jump table: target = base + (cd0 & 3) * 16 ; all four pads are valid destinations
        g = gen.Gen(rng, stmts=(1, 3), depth=2, loops=False)
        pre = g.stmts(rng.randrange(0, 3), 2)
        pads = []
        for k in range(4):
            body = g.out([0x70 + k]) + g.stmts(1, 1)
            pads.append(body)
        head = pre + [4, "CALLDATALOAD", 3, "AND", 16 * 0 + 0, "MUL"]  # placeholder, fixed below
        # assemble with fixed-size pads: each pad is padded with JUMPDESTs to 64 bytes
        pre_code = asm(pre)
        pad_codes = []
        for b in pads:
            c = asm([":p"] + b + ["@end", "JUMP"] + [":end"])  # local labels resolved later; rebuilt below
            pad_codes.append(b)
        # build the final token list with explicit padding
        PADSZ = 96
        toks = pre + [4, "CALLDATALOAD", 3, "AND", PADSZ, "MUL", "@table", "ADD", "JUMP"]
        toks.append(":table")
        endtoks = [32 * g.nout, 0x200, "RETURN"]
        blocks = []
        for k, b in enumerate(pads):
            blk = asm(b) if not any(isinstance(t, str) and t[:1] in ":@" for t in b) else None
            blocks.append(blk)
        if any(b is None or len(b) > PADSZ - 8 for b in blocks):
            # fall back to trivial pads
            blocks = [asm([0x70 + k, 0x200, "MSTORE"]) for k in range(4)]
        code_head = None
        # two-pass: compute table offset
        head_len = len(asm([t if not (isinstance(t, str) and t == "@table") else ("push", 0, 2) for t in toks[:-1]]))
        table_at = head_len
        body = b""
        for k, blk in enumerate(blocks):
            pad = bytes([0x5B]) + blk + bytes([0x61]) + (table_at + 4 * PADSZ).to_bytes(2, "big") + bytes([0x56])
            pad = pad + bytes([0xFE]) * (PADSZ - len(pad))
            body += pad
        final = bytes([0x5B]) + asm(endtoks)
        head_code = asm([t if not (isinstance(t, str) and t == "@table") else ("push", table_at, 2) for t in toks[:-1]])
        assert len(head_code) == head_len
        code = head_code + body + final
        return diffcore.Case({0x1000: code}, overrides={"symbolic_jump": True}, label=kind, gen_features=sorted(g.features | {"symbolic-jump-table"}))
    if kind == "symjump-revisit":
        # the same symbolic JUMP (same pc, same destination term) is reached on several paths whose constraints exclude different targets
        # x is loaded once and kept on the stack (a reloaded word would be concretised by the equality learnt on the path)
        toks = [4, "CALLDATALOAD"]
        for k in range(2):
            if rng.random() < 0.5:
                toks += ["DUP1", f"@pad{k}", "EQ", f"@n{k}", "JUMPI", f":n{k}"]  # plain two-sided branch, both sides continue at the same place
            else:
                toks += ["DUP1", f"@pad{k}", "EQ", "ISZERO", f"@n{k}", "JUMPI", 0x10 + k, 0x200 + 32 * k, "MSTORE", f":n{k}"]
        toks += ["JUMP"]
        for k in range(3):
            toks += [f":pad{k}", 0x70 + k, 0x260, "MSTORE", 0x80, 0x200, "RETURN"]
        code = asm(toks)
        case = diffcore.Case({0x1000: code}, ncd=1, overrides={"symbolic_jump": True}, label=kind, gen_features=["symbolic-jump-revisited"])
        # the inputs that jump to each landing pad (and one that jumps nowhere valid)
        case.extra_cd = [[i] for i, b in enumerate(code) if b == 0x5B] + [[1]]
        return case
    if kind == "dealt-value-calls":
        # the sender's balance is made concrete (vm.deal), then value calls are made until one is definitely unaffordable: the call fails,
        # pushes 0 and execution continues
        import foundry
        from artifacts import call_cheat

        have = rng.choice([0, 2, 5])
        vals = [rng.choice([3, 3, 7, 1]) for _ in range(rng.randrange(1, 4))]
        toks = call_cheat(foundry.HEVM, "deal(address,uint256)", [[("push", 0x1000, 20)], [have]]) + ["POP"]
        if rng.random() < 0.5:
            toks += [4, "CALLDATALOAD", "ISZERO", "@skip", "JUMPI"]
        for k, v in enumerate(vals):
            op = rng.choice(["CALL", "CALL", "CREATE"])
            if op == "CALL":
                toks += [0, 0, 0, 0, v, 0xBEEF, 0xFFFF, "CALL", 0x200 + 32 * k, "MSTORE"]
            else:
                toks += [0, 0, v, "CREATE", "ISZERO", "ISZERO", 0x200 + 32 * k, "MSTORE"]
        toks += [":skip", "SELFBALANCE", 0x200 + 32 * len(vals), "MSTORE", 32 * (len(vals) + 1), 0x200, "RETURN"]
        case = diffcore.Case({0x1000: asm(toks)}, ncd=1, label=kind, gen_features=["definite-insufficient-funds"], bal_addrs=[0x1000, 0xBEEF, 0x2000])
        case.foundry = True
        return case
    if kind == "hash-bound":
        # branches comparing a hash with a sum that contains it (the shape of solc's dynamic-array bound checks, which halmos
        # prunes by a syntactic pattern when the sum is "small constant + the same hash"); variants with a further symbolic
        # summand, a large constant, a different hash, or swapped operands are all satisfiable and must keep both sides
        slot = rng.choice([0, 1, 5])
        c = rng.choice([1, 5, 31, 2**32, 2**64 - 1])
        toks = [36, "CALLDATALOAD", 0, "MSTORE", slot, 32, "MSTORE", 64, 0, "SHA3"]  # h = keccak(key . slot), key symbolic
        shape = rng.choice(["c+h+y", "h+y", "c+h+y", "y+c+h", "big+h", "c+h2", "c+h"])
        y = [4, "CALLDATALOAD"]
        if shape == "c+h+y":
            rhs = ["DUP1", c, "ADD"] + y + ["ADD"]
        elif shape == "y+c+h":
            rhs = y + [c, "ADD", "DUP2", "ADD"]
        elif shape == "h+y":
            rhs = y + ["DUP2", "ADD"]
        elif shape == "big+h":
            rhs = ["DUP1", ("push", 2**256 - rng.choice([1, 2**64, 7]), 32), "ADD"]
        elif shape == "c+h2":
            rhs = [slot + 1, 32, "MSTORE", 64, 0, "SHA3", c, "ADD"]
        else:
            rhs = ["DUP1", c, "ADD"]
        # stack: h, rhs ; GT pops a=top? -> compute h > rhs as: rhs, h on top -> GT (a=h, b=rhs)
        cmp_ = rng.choice(["GT", "LT-swapped"])
        toks += rhs + (["DUP2", "GT"] if cmp_ == "GT" else ["DUP2", "SWAP1", "LT"])
        toks += ["@wrap", "JUMPI", 0x11, 0x200, "MSTORE", 0x20, 0x200, "RETURN", ":wrap", 0x22, 0x200, "MSTORE", 0x20, 0x200, "RETURN"]
        case = diffcore.Case({0x1000: asm(toks)}, ncd=2, label=kind, gen_features=["hash-bound:" + shape])
        # inputs that make the sum wrap around (y = -c - 1, -1, ...) and some that do not
        case.extra_cd = [[(2**256 - c - 1) % 2**256, 7], [2**256 - 1, 0], [2**256 - c, 1], [0, 2], [1, 3], [2**255, 2**255]]
        return case
    if kind == "bool-ops":
        # compiler-style repeated range checks: an atom is decided by an earlier branch, later branches test OR / AND combinations
        # that contain the same atom again (syntactically identical) together with atoms that are still open
        def atom(k):
            v = [4, "CALLDATALOAD"] if k[0] == "x" else [36, "CALLDATALOAD"]
            c = k[2]
            return {"gt": v + [c, "LT"], "lt": v + [c, "GT"], "eq": v + [c, "EQ"]}[k[1]]  # c < v, c > v, v == c
        consts = [rng.choice([0, 1, 3, 5, 100, 2**128, 2**255, 2**256 - 1]) for _ in range(4)]
        atoms = [(rng.choice("xy"), rng.choice(["gt", "lt", "eq"]), c) for c in consts]
        toks = []
        nret = [0]

        def ret():
            nret[0] += 1
            return [0x10 + nret[0], 0x200, "MSTORE", 0x20, 0x200, "RETURN"]
        # first decide atoms[0] (and sometimes atoms[1]) by plain branches
        decided = [0] if rng.random() < 0.6 else [0, 1]
        for d in decided:
            neg = rng.random() < 0.5
            toks += atom(atoms[d]) + (["ISZERO"] if neg else []) + [f"@d{d}", "JUMPI"]
        # then combinations
        for j in range(rng.randrange(1, 4)):
            members = rng.sample(range(4), rng.choice([2, 2, 3]))
            if not set(members) & set(decided):
                members[0] = rng.choice(decided)
            rng.shuffle(members)
            op = rng.choice(["OR", "OR", "AND"])
            e = atom(atoms[members[0]])
            for m in members[1:]:
                e = e + atom(atoms[m]) + [op]
            if rng.random() < 0.3:
                e += ["ISZERO"]
            toks += e + [f"@c{j}", "JUMPI"]
        toks += ret()
        for d in decided:
            toks += [f":d{d}"] + ret()
        for j in range(3):
            if f"@c{j}" in toks:
                toks += [f":c{j}"] + ret()
        case = diffcore.Case({0x1000: asm(toks)}, ncd=2, label=kind, gen_features=["bool-ops"])
        pts = sorted({(c + d) % 2**256 for c in consts for d in (-1, 0, 1)})
        case.extra_cd = [[a, b] for a in pts for b in rng.sample(pts, min(3, len(pts)))]
        return case
    if kind == "calltree":
        return calltree.make_tree_case(rng)
    if kind == "single-loop3":
        code, src, g = gen.gen_single(rng)
        return diffcore.Case({0x1000: code}, overrides={"loop": rng.choice([1, 3, 4])}, label=kind, gen_features=sorted(g.features))
    return workloads.make_case(kind, rng)


# ---------------------------------------------------------------------------- monitor 2
def recheck_prunes(r, res, case, rng):
    """independent re-decision of every unsat verdict"""
    seen = set()
    for conds, cond, verdict, site in r.check_log:
        res["counters"][f"check:{site}:{verdict}"] += 1
        if verdict != "unsat":
            continue
        key = (tuple(c.get_id() for c in conds), cond.get_id() if z3.is_expr(cond) else str(cond))
        if key in seen:
            continue
        seen.add(key)
        if not z3.is_expr(cond) or z3.is_false(cond):
            res["counters"]["prunes_trivially_false"] += 1
            continue
        res["counters"]["prunes_rechecked"] += 1
        es = pathmodel.exact_defs_many(list(conds) + [cond])
        s = z3.Solver()
        s.set(timeout=1500)
        for e in es:
            s.add(e)
        v = s.check()
        if v == z3.unsat:
            res["counters"]["prunes_confirmed_unsat"] += 1
            continue
        if v != z3.sat:
            res["counters"]["prunes_recheck_unknown"] += 1
            continue
        # candidate model (uninterpreted keccak): confirm under real keccak with pinned inputs
        m = s.model()
        pn = pathmodel.Pins()
        vals = {}
        for name, sym in r.inputs.items():
            x = m.eval(sym, model_completion=True).as_long()
            vals[name] = x
            pn.scalar(sym, x)
        bal = {}
        for a in list(case.contracts) + [vals.get("caller", 0), 0x9999]:
            bal[a] = m.eval(z3.Select(r.balance, z3.BitVecVal(a, 160)), model_completion=True).as_long()
        pn.array(r.balance, bal)
        verdict2, _ = pathmodel.admits(list(conds) + [cond], [], pn)
        if verdict2 == "sat":
            if max(bal.values()) > 2**128:
                res["counters"]["prunes_sat_but_assumption_violated"] += 1
                continue
            res["violations"].append(dict(prop="C02", what=f"a feasible alternative was pruned as unsat at call site '{site}'", key=f"prune:{site}",
                                          case=case.describe(), pruned_condition=str(cond)[:500], inputs={k: hex(v) for k, v in vals.items()},
                                          balances={hex(k): hex(v) for k, v in bal.items()}))
        else:
            res["counters"]["prunes_sat_only_with_uninterpreted_keccak"] += 1


# ---------------------------------------------------------------------------- monitor 4
def axiom_samples(rng, syms):
    out = []
    for _ in range(24):
        val = []
        for s in syms:
            w = s.size() if z3.is_bv(s) else None
            if w is None:
                continue
            k = rng.random()
            if k < 0.45:
                v = rng.choice([0, 1, 2, 3, (1 << w) - 1, (1 << w) - 2, 1 << (w - 1), (1 << (w - 1)) - 1]) % (1 << w)
            elif k < 0.7:
                v = rng.getrandbits(8)
            else:
                v = rng.getrandbits(w)
            val.append((s, z3.BitVecVal(v, w)))
        out.append(val)
    return out


def check_axioms(r, res, case, rng):
    seen = set()
    for cond in r.append_log:
        if not z3.is_expr(cond):
            continue
        c = z3.simplify(cond)
        if c.get_id() in seen or z3.is_true(c):
            continue
        seen.add(c.get_id())
        names = {t.decl().name() for t in pathmodel._walk([c]) if z3.is_app(t) and t.decl().kind() == z3.Z3_OP_UNINTERPRETED and t.num_args() > 0}
        arith = [n for n in names if n.startswith("f_evm_bv")]
        if not arith:
            res["counters"]["axioms_non_arithmetic"] += 1
            continue
        if any(not n.startswith("f_evm_") for n in names):
            res["counters"]["axioms_mixed_skipped"] += 1
            continue
        res["counters"]["axioms_arithmetic"] += 1
        e = pathmodel.exact_defs(c)
        syms = [t for t in pathmodel.free_consts([e]) if z3.is_bv(t)]
        arrays = [t for t in pathmodel.free_consts([e]) if not z3.is_bv(t) and not z3.is_bool(t)]
        if arrays:
            res["counters"]["axioms_with_arrays_skipped"] += 1
            continue
        for val in axiom_samples(rng, syms):
            v = z3.simplify(z3.substitute(e, *val)) if val else z3.simplify(e)
            res["counters"]["axiom_evaluations"] += 1
            if z3.is_false(v):
                res["violations"].append(dict(prop="C02", what="an auxiliary axiom excludes a real input (false under exact arithmetic)", key="axiom:" + ",".join(sorted(arith)),
                                              axiom=str(c)[:400], valuation={str(s): hex(x.as_long()) for s, x in val}, case=case.describe()))
                break
            if not z3.is_true(v):
                res["counters"]["axiom_not_ground"] += 1
                break


def worker(task):
    _imports()
    kind, lo, hi, seed = task
    res = new_result()
    for idx in range(lo, hi):
        rng = random.Random(f"c02-{seed}-{kind}-{idx}")
        p = rng.choice(UNKNOWN_PS)
        to = rng.choice(TIMEOUTS)
        # with no (or a long) branching timeout the solver must not meet 256-bit mul/div/mod terms
        gen.GLOBAL_OVERRIDES.clear()
        if to != 0.001:
            gen.GLOBAL_OVERRIDES.update(bin_ops=gen.CHEAP_BIN, loops=False, stmts=(1, 3), depth=2)
        try:
            case = make_case(kind, rng)
        finally:
            gen.GLOBAL_OVERRIDES.clear()
        ov = dict(case.overrides)
        ov["solver_timeout_branching"] = to
        case.overrides = ov
        res["features"][f"unknown_p={p}"] += 1
        res["features"][f"branching_timeout={to}"] += 1
        res["features"]["workload:" + kind] += 1
        for f in case.gen_features:
            res["features"]["gen:" + f] += 1
        extra = []
        for cdv in getattr(case, "extra_cd", []):
            xi = diffcore.random_input(case, rng)
            xi.cd = list(cdv) + list(xi.cd[len(cdv):])
            xi.source = "planted"
            extra.append(xi)
        r = diffcore.diff_case(case, rng, res, n_random=5, n_models=2, unknown_p=p, record_checks=True, record_appends=True,
                               judge_c01=False, judge_c02=True, extra_inputs=extra)
        if r is None:
            continue
        if p > 0:
            res["counters"]["runs_with_injected_unknown"] += 1
        recheck_prunes(r, res, case, rng)
        check_axioms(r, res, case, rng)
        if idx % 53 == 0:
            res["samples"].append(dict(workload=kind, index=idx, unknown_p=p, branching_timeout=to, paths=len(r.paths), checks=len(r.check_log),
                                       code={hex(a): c.hex()[:200] for a, c in case.contracts.items()}))
    res["violations"] = [v for v in res["violations"] if v.get("prop") == "C02"]
    return res


def main():
    run = Run("C02", "exploration")
    _imports()
    run.rule = ("generated programs (single, loops with --loop 1/3/4, call trees, symbolic account operands, symbolic jump tables, creations) explored under injected solver "
                "'unknown' (p in {0,0.1,0.5,1}) and branching timeouts {0,1ms,10s}; coverage of random/boundary/path-model inputs, independent re-solve of every unsat prune, "
                "sampled falsification of arithmetic axioms; non-trivial = distinct program with >= 2 paths or a nested frame")
    run.assumptions = ["hash range / injectivity, balances <= 2^128 (inputs violating them are not generated; models that do are discarded and counted)",
                       "a run that raised a loop-bound flag excuses uncovered inputs (counted)", "z3 (second context) re-decides prunes; sat answers are confirmed under real keccak"]
    if run.replay:
        import c01

        c01._imports()
        w = json.load(open(run.replay))["witness"]
        res = new_result()
        case = diffcore.Case({int(a, 16): bytes.fromhex(c) for a, c in w["case"]["contracts"].items()}, target=int(w["case"]["target"], 16), ncd=w["case"]["ncd"])
        if "input" in w:
            inp = diffcore.Input()
            i = w["input"]
            inp.cd = [int(x, 16) for x in i["cd"]]
            inp.caller, inp.origin, inp.value = int(i["caller"], 16), int(i["origin"], 16), int(i["value"], 16)
            inp.balances = {int(k, 16): int(v, 16) for k, v in i["balances"].items()}
            inp.source, inp.cd2 = "replay", None
            inp.caller2, inp.origin2, inp.value2 = 0x2002, 0x2002, 0
            diffcore.diff_case(case, random.Random(0), res, n_random=0, n_models=0, extra_inputs=[inp], judge_c01=False, unknown_p=w.get("unknown_p", 0.0))
        run.merge(res)
        run.finish()
    for mech, msg in workloads.run_probes("C02"):
        run.count("probes_run")
        if msg:
            run.known_finding(mech, msg)
    tasks = []
    for kind, (q, t) in MIX.items():
        n = run.n(q, t)
        tasks += [(kind, lo, min(n, lo + 3), run.seed) for lo in range(0, n, 3)]
    random.Random(run.seed).shuffle(tasks)
    run_pool(run, worker, tasks, soft_timeout=240)
    run.require("evaluations", 600)
    run.require("prunes_rechecked", 100)
    run.require("runs_with_injected_unknown", 50)
    run.require("injected_unknowns", 100)
    run.require("axiom_evaluations", 200)
    run.finish()


if __name__ == "__main__":
    main()
