"""C09 — message calls are atomic and see the right context.

Workload: generated call trees (lib/calltree.py) over scripted contracts: all six frame kinds,
every frame outcome, symbolic values/arguments, frames that fork on symbolic input, state
written after failed calls.  Oracle: reference EVM (flags, return data, storage, transient
storage, balances, code after the tree) + explicit balance conservation + static-context rules."""

import itertools
import json
import random

import report
from report import Run, new_result, run_pool


def _imports():
    global diffcore, calltree, workloads
    import calltree
    import diffcore
    import workloads


def worker(task):
    _imports()
    kind, items, seed = task
    res = new_result()
    for it in items:
        if kind == "enum":
            idx, spec = it
            rng = random.Random(f"c09-{seed}-enum-{idx}")
            case = calltree.make_tree_case(rng, spec=spec)
            res["features"]["enumerated"] += 1
        else:
            idx = it
            rng = random.Random(f"c09-{seed}-rand-{idx}")
            ov = {"storage_layout": "generic"} if rng.random() < 0.15 else {}
            case = calltree.make_tree_case(rng, overrides=ov)
        for f in case.gen_features:
            res["features"]["gen:" + f] += 1
        r = diffcore.diff_case(case, rng, res, n_random=3, n_models=2, judge_c01=True, judge_c02=True)
        if r is not None and idx % 61 == 0:
            res["samples"].append(dict(kind=kind, index=idx, contracts={hex(a): c.hex()[:300] for a, c in case.contracts.items()}, paths=len(r.paths)))
    for v in res["violations"]:
        v["prop"] = "C09"
    return res


def main():
    run = Run("C09", "exploration")
    _imports()
    run.rule = ("generated call trees over scripted contracts (kinds CALL/STATICCALL/DELEGATECALL/CALLCODE/CREATE/CREATE2, outcomes return/revert/invalid/out-of-bounds/stop; "
                "(kind,kind,outcome,outcome) combinations at depth <= 2 enumerated, deeper trees sampled); non-trivial = distinct tree with a nested frame or >= 2 paths")
    run.assumptions = ["as C01", "CALLCODE with non-zero value and value-bearing CALL inside a static frame are covered by dedicated probes only (known findings)"]
    if run.replay:
        import c01

        c01._imports()
        w = json.load(open(run.replay))["witness"]
        res = new_result()
        case = diffcore.Case({int(a, 16): bytes.fromhex(c) for a, c in w["case"]["contracts"].items()}, target=int(w["case"]["target"], 16), ncd=w["case"]["ncd"],
                             slots={int(a, 16): list(range(12)) for a in w["case"]["contracts"]})
        inp = diffcore.Input()
        i = w["input"]
        inp.cd = [int(x, 16) for x in i["cd"]]
        inp.caller, inp.origin, inp.value = int(i["caller"], 16), int(i["origin"], 16), int(i["value"], 16)
        inp.balances = {int(k, 16): int(v, 16) for k, v in i["balances"].items()}
        inp.source, inp.cd2 = "replay", None
        inp.caller2, inp.origin2, inp.value2 = 0x2002, 0x2002, 0
        diffcore.diff_case(case, random.Random(0), res, n_random=0, n_models=0, extra_inputs=[inp])
        run.merge(res)
        run.finish()
    for mech, msg in workloads.run_probes("C09"):
        run.count("probes_run")
        if msg:
            run.known_finding(mech, msg)
    kinds = ["CALL", "STATICCALL", "DELEGATECALL", "CALLCODE"]
    ends = ["ret", "revert", "invalid", "oob", "stop"]
    specs = []
    for k1, k2, e1, e2 in itertools.product(kinds, kinds, ends, ends):
        specs.append({"kind_by_ctx": {-1: k1, 0: k2}, "end_by_ctx": {0: e1, 1: e2}})
    rr = random.Random(run.seed)
    if not run.thorough():
        specs = rr.sample(specs, run.n(120, 0))
    items = list(enumerate(specs))
    tasks = [("enum", items[i : i + 6], run.seed) for i in range(0, len(items), 6)]
    n = run.n(260, 8000)
    tasks += [("rand", list(range(lo, min(n, lo + 6))), run.seed) for lo in range(0, n, 6)]
    rr.shuffle(tasks)
    run_pool(run, worker, tasks, soft_timeout=600)
    run.extra["enumerated_kind_outcome_combinations"] = len(specs)
    run.exhaustive = False
    run.require("path_input_pairs", 800)
    run.require("storage_slots_compared", 5000)
    run.require("balances_compared", 2000)
    f = run.features
    for need in ("frame:DELEGATECALL/ok", "frame:STATICCALL/ok", "frame:CALLCODE/ok", "frame:CALL/revert", "frame:CREATE/ok"):
        if f.get(need, 0) < 5:
            run.inconclusive.append(f"feature {need} exercised {f.get(need, 0)} < 5 times")
    run.count("rollbacks_seen", sum(v for k, v in f.items() if k.startswith("frame:") and k.split("/")[1] not in ("ok", "identity")))
    run.finish()


if __name__ == "__main__":
    main()
