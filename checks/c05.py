"""C05 — verdict aggregation is fail-safe and independent of solver timing.

Fault enumeration: a generated check_sw(uint256 x) is a k-way switch whose arms are
{success, plain revert, Panic(1), vm.assert failure, stuck (unsupported opcode)}; the solver is replaced
by a scripted stub (lib/stubsolver.sh) that answers each query file with one of
{sat+model, sat+abstract model, unsat, unsat+error line+exit 1, unsat with an empty core, unknown, timeout, garbage, empty output,
non-zero exit, killed by signal} after a scripted delay.  TestResult.exitcode is compared with an
independent precedence model of the property statement; the same scenario is repeated under permuted
completion delays and with --early-exit / --cache-solver.  MainResult.exitcode is checked through
halmos.__main__._main with a fake `forge` and a prebuilt out/ directory."""

import itertools
import json
import os
import random
import re
import shutil
import sys
import tempfile

import report
from report import Run, new_result, run_pool

ARMS = ["S", "R", "P", "F", "K"]  # success, revert, panic, fail flag (vm.assert), stuck
REPLIES = ["sat", "satabs", "unsat", "unsaterr", "unsatnocore", "unknown", "timeout", "garbage", "empty", "exit3", "kill", "binary"]
CLASS = {"sat": "SAT", "satabs": "SAT", "unsat": "UNSAT", "unsaterr": "UNSAT", "unsatnocore": "UNSAT", "unknown": "UNKNOWN", "timeout": "UNKNOWN", "garbage": "ERR", "empty": "ERR", "exit3": "ERR", "kill": "ERR", "binary": "ERR"}
STUB = os.path.join(report.VERIF, "lib", "stubsolver.sh")
WORK = os.path.join(report.VERIF, ".work")


def _imports():
    global A, z3
    import z3
    import artifacts as A


def build_switch(arms, default_ok=True):
    U = ("uint", 256)
    body = []
    for i, a in enumerate(arms):
        body += A.arg(0) + [i + 1, "EQ", f"@arm{i}", "JUMPI"]
    body += ["STOP"] if default_ok else [0, 0, "REVERT"]
    for i, a in enumerate(arms):
        body += [f":arm{i}"]
        if a == "S":
            body += ["STOP"]
        elif a == "R":
            body += [0, 0, "REVERT"]
        elif a == "P":
            body += A.panic(1)
        elif a == "F":
            body += A.vm("assertTrue(bool)", [0]) + ["STOP"]
        elif a == "K":
            body += [bytes([0xEE])]  # undefined opcode -> HalmosException("Unsupported opcode") -> stuck path
    fn = A.Fn("check_sw", [("x", U)], body)
    return A.ContractSpec("T", [fn]), fn


def expected(arms, replies, default_ok):
    """independent precedence model of the statement; returns the set of acceptable categories"""
    cls = {i: CLASS[replies[i]] for i in replies}
    assertion = [i for i, a in enumerate(arms) if a in "PF"]
    stuck_arms = [i for i, a in enumerate(arms) if a == "K"]
    sat = any(cls[i] == "SAT" for i in assertion)
    err = any(cls[i] == "ERR" for i in assertion)
    unk = any(cls[i] == "UNKNOWN" for i in assertion)
    stuck_confirmed = [i for i in stuck_arms if cls[i] != "UNSAT"]
    normal = sum(1 for a in arms if a == "S") + (1 if default_ok else 0)
    if sat:
        return {"FAIL"}
    if err:
        return {"ERROR"}
    if unk:
        # a confirmed stuck path (ERROR) together with an unknown reply (TIMEOUT): the statement ranks ERROR first, the
        # implementation ranks stuck paths after solver timeouts; either non-PASS verdict is accepted for this combination
        return {"TIMEOUT", "ERROR"} if stuck_confirmed else {"TIMEOUT"}
    if stuck_confirmed:
        # the stuck-path confirmation query itself may have failed / timed out: ERROR or TIMEOUT
        if any(cls[i] in ("UNKNOWN",) for i in stuck_confirmed):
            return {"ERROR", "TIMEOUT"}
        return {"ERROR"}
    if normal == 0:
        return {"ERROR"}
    return {"PASS"}


CAT = {0: "PASS", 1: "FAIL", 2: "TIMEOUT", 3: "ERROR", 4: "ERROR", 5: "ERROR"}


def calibrate(spec, fn, arms, workdir):
    """which query file belongs to which arm: one run with a capturing stub that answers unknown"""
    sdir = os.path.join(workdir, "calib")
    cap = os.path.join(sdir, "cap")
    os.makedirs(cap, exist_ok=True)
    open(os.path.join(sdir, "default.kind"), "w").write("unknown")
    ctx = A.make_ctx(spec, overrides=dict(solver_command=f"{STUB} {sdir}", solver_timeout_assertion=10.0, solver_threads=1, solver_timeout_branching=3.0))
    A.run(ctx)
    mapping = {}
    for f in os.listdir(cap):
        # "<function dir>__<N>.smt2": the directory name ends in random characters that may themselves be (or end in) underscores
        base = f.rsplit("__", 1)[1]
        assert re.fullmatch(r"\d+(\.refined)?\.smt2", base), f
        text = open(os.path.join(cap, f)).read()
        ctx3 = z3.Context()
        asserts = z3.parse_smt2_string(text.replace("(check-sat)", "").replace("(get-model)", ""), ctx=ctx3)
        xs = [d for d in set(str(t) for a in asserts for t in _consts(a)) if d.startswith("p_x_")]
        if not xs:
            continue
        x = z3.BitVec(xs[0], 256, ctx3)
        for i in range(len(arms)):
            s = z3.Solver(ctx=ctx3)
            s.add(*asserts)
            s.add(x != i + 1)
            if s.check() == z3.unsat:
                mapping[base] = i
    return mapping


def _consts(e):
    out, stack, seen = [], [e], set()
    while stack:
        t = stack.pop()
        if t.get_id() in seen:
            continue
        seen.add(t.get_id())
        if z3.is_const(t) and t.decl().kind() == z3.Z3_OP_UNINTERPRETED:
            out.append(t)
        stack.extend(t.children())
    return out


_calib_cache = {}


def scenario(arms, default_ok, replies, delays, flags, res, tag, scale=1.0):
    spec, fn = build_switch(arms, default_ok)
    os.makedirs(WORK, exist_ok=True)
    workdir = tempfile.mkdtemp(prefix="c05-", dir=WORK)
    try:
        key = (tuple(arms), default_ok)
        if key not in _calib_cache:
            _calib_cache[key] = calibrate(spec, fn, arms, workdir)
        mapping = _calib_cache[key]
        need = [i for i, a in enumerate(arms) if a in "PFK"]
        if sorted(set(mapping.values())) != sorted(need):
            res["counters"]["calibration_failed"] += 1
            return
        spath = os.path.join(workdir, "script")
        os.makedirs(spath, exist_ok=True)
        open(os.path.join(spath, "default.kind"), "w").write("unknown")
        open(os.path.join(spath, "timeout.sleep"), "w").write(str(4 * scale))
        for base, i in mapping.items():
            open(os.path.join(spath, base + ".kind"), "w").write(replies[i])
            open(os.path.join(spath, base + ".val"), "w").write(str(i + 1))
            if delays.get(i):
                open(os.path.join(spath, base + ".delay"), "w").write(str(delays[i] * scale))
        has_to = any(r == "timeout" for r in replies.values())
        ov = dict(solver_command=f"{STUB} {spath}", solver_timeout_assertion=(1.5 if has_to else 6.0) * scale, solver_threads=max(1, len(need)),
                  # the default 1 ms branching time limit makes the set of explored paths (hence the path ids the replies are keyed on) depend on machine load
                  solver_timeout_branching=3.0)
        ov.update(flags)
        if flags.get("solver_threads"):
            ov["solver_threads"] = flags["solver_threads"]
        out = A.run(A.make_ctx(spec, overrides=ov))
        res["counters"]["evaluations"] += 1
        res["counters"]["scenarios"] += 1
        want = expected(arms, replies, default_ok)
        if out.exception or len(out.results) != 1:
            got = "NO-RESULT"
        else:
            got = CAT.get(out.results[0].exitcode, "?%s" % out.results[0].exitcode)
        res["features"]["verdict:" + got] += 1
        for i in need:
            res["features"][f"reply:{replies[i]}@{arms[i]}"] += 1
        if got not in want:
            try:
                stub_log = open(os.path.join(spath, "log")).read().split("\n")[:12]
            except OSError:
                stub_log = None
            res.setdefault("candidates", []).append(dict(stub_log=stub_log, reply_keys=sorted(mapping), warnings=[str(w)[:160] for w in (getattr(out, "logs", None) or [])][:8],what=f"verdict {got} but the outcome/reply vector demands {sorted(want)}", key=f"verdict:{got}:{sorted(want)}", arms="".join(arms), default_ok=default_ok,
                                          replies={str(k): v for k, v in replies.items()}, delays={str(k): v for k, v in delays.items()}, flags={k: str(v) for k, v in flags.items()},
                                          exitcode=None if got == "NO-RESULT" else out.results[0].exitcode, exception=(out.exception or "")[-300:], tag=tag))
        return got
    finally:
        shutil.rmtree(workdir, ignore_errors=True)


def enumerate_scenarios(maxk, replies_set):
    out = []
    for k in range(1, maxk + 1):
        for arms in itertools.product(ARMS, repeat=k):
            need = [i for i, a in enumerate(arms) if a in "PFK"]
            for rv in itertools.product(replies_set, repeat=len(need)):
                out.append((arms, dict(zip(need, rv))))
    return out


def worker(task):
    _imports()
    kind, items, seed = task
    res = new_result()
    rng = random.Random(f"c05-{seed}-{kind}-{items[0] if items else ''}")
    for it in items:
        if kind == "scen":
            arms, replies, default_ok, flags, orders = it
            need = sorted(replies)
            verdicts = set()
            for o in range(orders):
                perm = list(need)
                rng.shuffle(perm)
                delays = {i: 0.15 * perm.index(i) for i in need} if o else {}
                g = scenario(list(arms), default_ok, replies, delays, flags, res, tag=f"order{o}")
                verdicts.add(g)
            if len(need) >= 2:
                res["distinct"].append(f"{''.join(arms)}|{sorted(replies.items())}|{default_ok}|{sorted(flags.items())}")
            if orders > 1:
                res["counters"]["order_permutation_groups"] += 1
                if len(verdicts) > 1 and not any("timeout" == r for r in replies.values()):
                    res.setdefault("candidates", []).append(dict(what="verdict depends on the completion order of the solver processes", key="order-dependence", arms="".join(arms), default_ok=default_ok,
                                                  replies={str(k): v for k, v in replies.items()}, verdicts=sorted(str(v) for v in verdicts), flags={k: str(v) for k, v in flags.items()}))
        elif kind == "main":
            main_scenario(it, res)
    return res


FAKE_FORGE = "#!/bin/sh\nexit 0\n"


def main_scenario(spec_list, res):
    """_main with a fake forge and a prebuilt out/: exit code != 0 iff some selected test is not PASS"""
    import contextlib
    import io

    from halmos.__main__ import _main

    os.makedirs(WORK, exist_ok=True)
    root = tempfile.mkdtemp(prefix="c05-main-", dir=WORK)
    try:
        os.makedirs(os.path.join(root, "bin"))
        with open(os.path.join(root, "bin", "forge"), "w") as f:
            f.write(FAKE_FORGE)
        os.chmod(os.path.join(root, "bin", "forge"), 0o755)
        want_fail = False
        U = ("uint", 256)
        for ci, tests in enumerate(spec_list):
            fns = []
            for ti, kind in enumerate(tests):
                if kind == "pass":
                    body = A.arg(0) + [1, "AND", 2, "EQ", "@bad", "JUMPI", "STOP", ":bad"] + A.panic(1)
                elif kind == "fail":
                    body = A.arg(0) + [42, "EQ", "@bad", "JUMPI", "STOP", ":bad"] + A.panic(1)
                    want_fail = True
                elif kind == "stuck":
                    body = A.arg(0) + [7, "EQ", "@bad", "JUMPI", "STOP", ":bad", bytes([0xEE])]
                    want_fail = True
                else:  # revert-all
                    body = [0, 0, "REVERT"]
                    want_fail = True
                fns.append(A.Fn(f"check_{kind}{ti}", [("x", U)], body))
            spec = A.ContractSpec(f"C{ci}", fns, filename=f"C{ci}.sol")
            cj = spec.json()
            cj["metadata"]["compiler"] = {"version": "0.8.26"}
            cj["id"] = ci
            cj["ast"] = {"absolutePath": f"test/C{ci}.sol", "nodes": [{"nodeType": "ContractDefinition", "name": f"C{ci}", "contractKind": "contract", "nodes": []}]}
            d = os.path.join(root, "out", f"C{ci}.sol")
            os.makedirs(d)
            json.dump(cj, open(os.path.join(d, f"C{ci}.json"), "w"))
        old = os.environ["PATH"]
        os.environ["PATH"] = os.path.join(root, "bin") + ":" + old
        try:
            buf = io.StringIO()
            with contextlib.redirect_stdout(buf), contextlib.redirect_stderr(io.StringIO()):
                r = _main(["--root", root, "--no-status", "--solver", "yices"])
        finally:
            os.environ["PATH"] = old
        res["counters"]["evaluations"] += 1
        res["counters"]["main_runs"] += 1
        if (r.exitcode != 0) != want_fail:
            res["violations"].append(dict(what="process exit code does not reflect the test verdicts", key="main-exitcode", contracts=spec_list, exitcode=r.exitcode, want_nonzero=want_fail,
                                          results={k: [(t.name, t.exitcode) for t in v] for k, v in (r.test_results or {}).items()}))
        else:
            res["distinct"].append("main:" + json.dumps(spec_list))
    finally:
        shutil.rmtree(root, ignore_errors=True)


def rerun_worker(task):
    """serial re-run (twice), then slow motion, of one mismatch candidate; returns (candidate, verdict)"""
    _imports()
    (c,) = task
    replies = {int(k): v for k, v in c["replies"].items()}
    flags = {k: (1 if k == "solver_threads" else v == "True") for k, v in c.get("flags", {}).items()}
    persists = 0
    for attempt in range(2):
        delays = {int(k): float(v) for k, v in c.get("delays", {}).items()} if attempt == 0 else {}
        res2 = new_result()
        got2 = scenario(list(c["arms"]), c.get("default_ok") in (True, "True"), replies, delays, flags, res2, "serial-rerun")
        c.setdefault("rerun_verdicts", []).append(str(got2))
        if res2.get("candidates"):
            persists += 1
    if persists < 2:
        return c, "mismatch_not_reproduced_serially"
    # slow motion: every time constant of the scenario (solver time limit, stub sleep, reply delays) x8.  A stub reply that missed the
    # time limit only because the machine is overloaded arrives in time now; an ordering defect in halmos does not depend on the scale
    res3 = new_result()
    got3 = scenario(list(c["arms"]), c.get("default_ok") in (True, "True"), replies, {}, flags, res3, "slow-motion-rerun", scale=8.0)
    c["slow_motion_verdict"] = str(got3)
    return c, ("violation" if res3.get("candidates") else "mismatch_not_reproduced_in_slow_motion")


def main():
    run = Run("C05", "fault_enumeration")
    _imports()
    run.rule = ("k-way switch tests with arms in {success, revert, Panic(1), vm.assert failure, stuck} x scripted solver replies in {sat, sat+abstract, unsat, unsat+error/exit1, unknown, "
                "timeout, garbage, empty, exit 3, SIGKILL} per query x completion orders x {--early-exit, --cache-solver}; quick: all k = 1 scenarios + a seeded sample of k = 2; thorough: exhaustive for k <= 2 and k = 3 on a reduced reply set, sampled beyond; "
                "non-trivial = distinct (arms, replies, default, flags) scenario with at least two solver queries, or a distinct _main contract mix")
    run.assumptions = ["15-line precedence model from the property statement", "stub solver stands in for real solvers; reply classes follow what real solvers print",
                       "a confirmed stuck path together with an unknown reply may be reported as TIMEOUT or ERROR"]
    rng = random.Random(run.seed)
    if run.replay:
        w = json.load(open(run.replay))["witness"]
        res = new_result()
        scenario(list(w["arms"]), w["default_ok"], {int(k): v for k, v in w["replies"].items()}, {int(k): float(v) for k, v in w.get("delays", {}).items()},
                 {k: (1 if k == "solver_threads" else v == "True") for k, v in w.get("flags", {}).items()}, res, "replay")
        run.merge(res)
        run.finish()
    scen = []
    if run.thorough():
        base = enumerate_scenarios(2, REPLIES) + enumerate_scenarios(3, ["sat", "unsat", "unknown", "garbage", "timeout"])[1024 + 32:]
    else:
        # quick: all single-path scenarios + a seeded sample of the two-path space (exhaustive in the thorough tier)
        full = enumerate_scenarios(2, REPLIES)
        ones = [x for x in full if len(x[0]) == 1]
        twos = [x for x in full if len(x[0]) == 2]
        base = ones + rng.sample(twos, int(330 * run.scale))
    for arms, replies in base:
        scen.append((arms, replies, True, {}, 1))
    # sampled: larger k, default revert, flags, completion orders
    for _ in range(run.n(70, 1500)):
        k = rng.choice([2, 3, 3, 4])
        arms = tuple(rng.choice(ARMS) for _ in range(k))
        need = [i for i, a in enumerate(arms) if a in "PFK"]
        replies = {i: rng.choice(REPLIES) for i in need}
        flags = {}
        if rng.random() < 0.4:
            flags["early_exit"] = True
        if rng.random() < 0.5:
            flags["cache_solver"] = True
        if rng.random() < 0.35:
            flags["solver_threads"] = 1  # queries are answered strictly one after the other (exploration order)
        scen.append((arms, replies, rng.random() < 0.75, flags, 3 if len(need) >= 2 else 1))
    # systematic cache histories: an unsat answer (with a full, an empty, or an error-decorated core) strictly before a
    # satisfiable query, queries answered one at a time, --cache-solver on: the later sat must still count
    for first in ("unsat", "unsatnocore", "unsaterr"):
        for a1 in "PF":
            for a2 in "PF":
                for extra in ((), ("S",), ("K",)):
                    arms = (a1, a2) + extra
                    for order in (0, 1):  # either arm may be explored (and answered) first
                        replies = {order: first, 1 - order: "sat"}
                        if extra == ("K",):
                            replies[2] = "unsat"
                        scen.append((arms, replies, True, {"cache_solver": True, "solver_threads": 1}, 1))
    rng.shuffle(scen)
    tasks = [("scen", scen[i : i + 8], run.seed) for i in range(0, len(scen), 8)]
    mains = [[["pass", "pass"]], [["pass"], ["fail"]], [["fail"], ["pass"]], [["pass", "stuck"]], [["revert"], ["pass"]], [["pass"], ["pass", "pass"]], [["pass", "fail", "pass"]], [["stuck"]]]
    tasks += [("main", [m], run.seed) for m in mains]
    cands = []
    for item, status, value in report.pmap(worker, tasks, soft_timeout=900, nproc=8):
        if status == "ok":
            cands += value.pop("candidates", [])
            run.merge(value)
        else:
            run.count("case_" + status)
            print("harness problem:", status, str(value)[-400:], flush=True)
    # wall-clock effects (process start-up under load vs. the solver timeout) can distort a scenario: every mismatch is
    # re-run serially, with the machine otherwise idle, and only a mismatch that persists is a violation
    # the re-runs happen one at a time, each in a worker process of its own: a crash of the harness there (libz3 ending the process
    # with one of its internal error codes was seen once, in a two-hour run) must not take the verdict with it
    for item, status, value in report.pmap(rerun_worker, [(c,) for c in cands], soft_timeout=900, nproc=1):
        run.count("mismatch_candidates")
        if status != "ok":
            run.count("mismatch_rerun_" + status)
            print("harness problem in a re-run:", status, str(value)[-300:], flush=True)
            continue
        c, verdict = value
        if verdict == "violation":
            run.violation(c["what"], c, key=c["key"])
        else:
            run.count(verdict)
    if run.counters.get("mismatch_rerun_crash", 0) + run.counters.get("mismatch_rerun_killed", 0) + run.counters.get("mismatch_rerun_timeout", 0) > 3:
        run.inconclusive.append("re-runs of mismatch candidates crashed in the harness")
    run.exhaustive = False
    run.extra["exhaustive_note"] = "thorough tier: all (arms, replies) pairs for k <= 2 and k = 3 on a reduced reply set; quick tier: all k = 1 and a sample of k = 2; larger k, flags and orders are sampled"
    run.samples[:0] = [dict(arms="PK", replies={"0": "unsat", "1": "unknown"}, default_ok=True, expected=["ERROR", "TIMEOUT"])]
    run.require("scenarios", 300)
    run.require("order_permutation_groups", 10)
    run.require("main_runs", 5)
    if run.counters.get("calibration_failed", 0) > run.counters.get("scenarios", 0) * 0.05:
        run.inconclusive.append("calibration failed too often")
    run.finish()


if __name__ == "__main__":
    main()
