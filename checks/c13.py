"""C13 — assume and assert cheatcodes have exactly their stated meaning.

 1. table audit: every selector in halmos' assert_cheatcode_handler must be the selector of a forge-std vm.assert*
    signature (families generated combinatorially, selectors by keccak); for signatures we give semantics to,
    the handler's condition is compared with our specification of *that signature*:
      - word types: SMT validity over symbolic operands (signedness from the type);
      - bytes / string / T[]: boundary cases (equal, one element differs, prefix, lengths differ, empty);
      - bytes[] / string[] must raise explicitly;
    every (selector, signature) pair in utils.dict_of_unsupported_cheatcodes must satisfy the keccak relation.
 3. end to end: a test contract whose check(x,y) reaches vm.assert*(f(x), g(y)) through 0..3 self-calls that swallow the callee's failure,
    optionally behind vm.assume: run_contract's verdict must be FAIL whenever a boundary input makes the relation false, and every
    reported counterexample must make it false (and pass the assumption) on the reference.
 2. dynamic: generated programs calling vm.assume / vm.assert* from nesting depth 0..3 are run through SEVM.run;
    for concrete operand valuations the reference Foundry model decides {assumption rejected, assertion failed, ok}:
    a rejected input must be admitted by no path, a failing input by a FailCheatcode path (and only by such),
    a passing input by a normal path with the reference end state.  The branching solver is additionally made to
    answer `unknown`."""

import json
import random

import z3

import abi
import foundry
import report
from report import Run, new_result, run_pool


def _imports():
    global A, diffcore, symrun, handlers, ByteVec, hutils, asm
    import artifacts as A
    import diffcore
    import symrun
    from asm import asm
    from halmos.assertions import assert_cheatcode_handler as handlers
    from halmos.bytevec import ByteVec
    import halmos.utils as hutils


def spec_cond(spec, a, b):
    fam, typ = spec["family"], spec["type"]
    if fam == "True":
        return a != 0
    if fam == "False":
        return a == 0
    if fam == "Eq":
        return a == b
    if fam == "NotEq":
        return a != b
    signed = typ == "int256"
    return {"Lt": (a < b) if signed else z3.ULT(a, b), "Gt": (a > b) if signed else z3.UGT(a, b),
            "Le": (a <= b) if signed else z3.ULE(a, b), "Ge": (a >= b) if signed else z3.UGE(a, b)}[fam]


def audit_table(res):
    mine = foundry.ASSERTS
    others = foundry.other_assertion_selectors()
    for selr, h in handlers.items():
        res["counters"]["evaluations"] += 1
        res["counters"]["selectors_audited"] += 1
        if selr not in mine and selr not in others:
            res["violations"].append(dict(what="a selector in the assert table is not the selector of any forge-std vm.assert* signature", key=f"unknown-selector:{selr:08x}", selector=f"{selr:08x}"))
            continue
        if selr not in mine:
            res["counters"]["selectors_without_semantics_here"] += 1
            continue
        spec = mine[selr]
        wit = dict(selector=f"{selr:08x}", signature=spec["sig"])
        typ = spec["type"]
        nargs = 1 if spec["family"] in ("True", "False") else 2
        if not typ.endswith("[]") and typ not in ("string", "bytes"):
            # word types: symbolic operands
            a, b = z3.BitVec("a", 256), z3.BitVec("b", 256)
            cd = ByteVec()
            cd.append(selr.to_bytes(4, "big"))
            cd.append(a)
            if nargs == 2:
                cd.append(b)
            if spec["msg"]:
                cd.append(abi.encode(("uint", 256), 32 * (nargs + 1)))
                cd.append(abi.encode(("string",), b"msg"))
            try:
                cond = h(cd).cond
            except Exception as e:
                res["violations"].append(dict(what="assert handler raised on well-formed symbolic arguments", key="handler-raise:" + spec["family"], exc=repr(e)[:200], **wit))
                continue
            want = spec_cond(spec, a, b)
            s = z3.Solver()
            s.set(timeout=10000)
            s.add(cond != want)
            r = s.check()
            res["counters"]["smt_obligations"] += 1
            if r == z3.sat:
                m = s.model()
                res["violations"].append(dict(what="assert handler condition differs from the semantics of the signature that hashes to its selector", key=f"semantics:{spec['family']}:{typ}",
                                              model=str(m)[:300], cond=str(cond)[:200], **wit))
            elif r == z3.unsat:
                res["counters"]["smt_discharged"] += 1
                res["distinct"].append(spec["sig"])
            else:
                res["counters"]["smt_timeouts"] += 1
        else:
            # dynamic types: boundary cases
            base = typ[:-2] if typ.endswith("[]") else typ
            arr = typ.endswith("[]")
            if arr and base in ("string", "bytes"):
                cd = ByteVec(selr.to_bytes(4, "big") + abi.encode_tuple(spec["types"], [[b"a"], [b"a"]] + ([b"m"] if spec["msg"] else [])))
                try:
                    h(cd)
                    res["violations"].append(dict(what="bytes[]/string[] assertion silently accepted (no semantics implemented)", key="bytes-array-accepted", **wit))
                except NotImplementedError:
                    res["counters"]["explicitly_unsupported"] += 1
                except Exception as e:
                    res["counters"]["explicitly_unsupported"] += 1
                continue
            rng = random.Random(selr)
            def elem():
                if base in ("string", "bytes"):
                    return bytes(rng.getrandbits(8) for _ in range(rng.choice([1, 31, 32, 33])))
                if base == "bool":
                    return rng.getrandbits(1)
                if base == "address":
                    return rng.getrandbits(160)
                if base == "bytes32":
                    return bytes(rng.getrandbits(8) for _ in range(32))
                return rng.getrandbits(256)
            cases = []
            if arr:
                x = [elem() for _ in range(3)]
                y = list(x)
                y[1] = elem()
                cases = [(x, list(x)), (x, y), (x, x[:2]), (x[:2], x), ([], []), ([], x[:1]), (x[:1], x[:1])]
            else:
                x = elem() + b"\x01"
                cases = [(x, x), (x, x[:-1] + bytes([x[-1] ^ 1])), (x, x[:-1]), (x[:-1], x), (b"", b""), (b"", x), (x, b""), (x + b"\x00", x), (b"\x00" * 32, b"\x00" * 33)]
            for va, vb in cases:
                args = [va, vb] + ([b"m"] if spec["msg"] else [])
                cd = ByteVec(selr.to_bytes(4, "big") + abi.encode_tuple(spec["types"], args))
                res["counters"]["boundary_cases"] += 1
                try:
                    cond = z3.simplify(h(cd).cond)
                except Exception as e:
                    res["violations"].append(dict(what="assert handler raised on a well-formed dynamic argument", key="handler-raise-dyn:" + typ, exc=repr(e)[:200], a=str(va)[:80], b=str(vb)[:80], **wit))
                    break
                want = foundry.assertion_holds(spec, abi.decode_tuple(spec["types"], abi.encode_tuple(spec["types"], args), 0))
                if not (z3.is_true(cond) or z3.is_false(cond)) or z3.is_true(cond) != want:
                    res["violations"].append(dict(what="assert handler gives the wrong answer on a dynamic-type boundary case", key=f"dyn-semantics:{spec['family']}:{typ}", got=str(cond), want=want,
                                                  a=str(va)[:80], b=str(vb)[:80], **wit))
                    break
            else:
                res["distinct"].append(spec["sig"])
    # cross-check of the unsupported cheatcode table
    for selr, sig in getattr(hutils, "dict_of_unsupported_cheatcodes", {}).items():
        res["counters"]["unsupported_table_entries"] += 1
        if foundry.sel(sig) != selr:
            res["violations"].append(dict(what="dict_of_unsupported_cheatcodes: selector does not match its signature", key="unsupported-table", selector=f"{selr:08x}", signature=sig))


# ---------------------------------------------------------------------------------- dynamic part
WORD_ASSERTS = [(s, sp) for s, sp in foundry.ASSERTS.items() if not sp["msg"] and sp["type"] in ("uint256", "int256", "bool", "address", "bytes32") and not sp["type"].endswith("[]")]


def assert_tokens(rng, operand_tokens):
    selr, spec = rng.choice(WORD_ASSERTS)
    nargs = 1 if spec["family"] in ("True", "False") else 2
    return A.vm(spec["sig"], *operand_tokens[:nargs]), spec


def make_program(rng, depth):
    """root -> (depth) nested calls; the innermost frame performs assume / assert on calldata words"""
    inner = []
    feats = set()
    nact = rng.randrange(1, 4)
    ops = lambda: rng.choice([[4, "CALLDATALOAD"], [36, "CALLDATALOAD"], [rng.choice([0, 1, 5, 2**255, 2**256 - 1])], [4, "CALLDATALOAD", 36, "CALLDATALOAD", "ADD"]])
    for _ in range(nact):
        if rng.random() < 0.35:
            cmpop = rng.choice(["LT", "GT", "EQ", "SLT"])
            inner += A.vm("assume(bool)", ops() + ops() + [cmpop])
            feats.add("assume")
        else:
            toks, spec = assert_tokens(rng, [ops(), ops()])
            inner += toks
            feats.add("assert:" + spec["family"] + ":" + spec["type"])
    inner += [4, "CALLDATALOAD", 36, "CALLDATALOAD", "XOR", 0, "MSTORE", 32, 0, "RETURN"]
    contracts = {}
    addrs = [0x1000, 0x1100, 0x1200, 0x1300]
    contracts[addrs[depth]] = asm(inner)
    for d in reversed(range(depth)):
        kind = rng.choice(["CALL", "CALL", "STATICCALL", "DELEGATECALL"])
        fwd = [100, 0, 0x100, "CALLDATACOPY", 32, 0x180, 100, 0x100] + ([0] if kind == "CALL" else []) + [addrs[d + 1], 0xFFFF, kind]
        # the caller swallows a failure of the callee (a failed assertion must still fail the test)
        body = fwd + [0x200, "MSTORE", 0x180, "MLOAD", 0x220, "MSTORE", 0x40, 0x200, "RETURN"]
        contracts[addrs[d]] = asm(body)
    case = diffcore.Case(contracts, ncd=2, label=f"assert-depth{depth}", gen_features=sorted(feats | {f"depth:{depth}"}))
    case.foundry = True
    return case


def dynamic_case(seed, idx, res):
    rng = random.Random(f"c13-{seed}-{idx}")
    depth = rng.randrange(0, 4)
    case = make_program(rng, depth)
    p = rng.choice([0.0, 0.0, 0.5, 1.0])
    for f in case.gen_features:
        res["features"]["gen:" + f] += 1
    res["features"][f"unknown_p={p}"] += 1
    ins = []
    for _ in range(5):
        i = diffcore.Input()
        i.cd = [rng.choice([0, 1, 5, 6, 2**255, 2**255 + 1, 2**256 - 1, rng.getrandbits(256)]) for _ in range(2)]
        if rng.random() < 0.3:
            i.cd[1] = i.cd[0]
        i.caller, i.origin, i.value = 0x2000, 0x2000, 0
        i.balances, i.source, i.cd2, i.tape = {}, "boundary", None, None
        i.caller2 = i.origin2 = 0x2002
        i.value2 = 0
        ins.append(i)
    r = diffcore.diff_case(case, rng, res, n_random=0, n_models=2, extra_inputs=ins, unknown_p=p, judge_c01=True, judge_c02=True)
    if r is not None:
        res["counters"]["dynamic_programs"] += 1
        res["counters"][f"dynamic_depth_{depth}"] += 1
        res["distinct"].append(f"dyn:{idx}")
        if idx % 31 == 0:
            res["samples"].append(dict(index=idx, depth=depth, contracts={hex(a): c.hex()[:160] for a, c in case.contracts.items()}, paths=len(r.paths)))
    for v in res["violations"]:
        v["prop"] = "C13"
        v.setdefault("index", idx)


# ---------------------------------------------------------------------------------- end to end through run_contract
E_B = [0, 1, 5, 6, 2**255 - 1, 2**255, 2**255 + 1, 2**256 - 1]


def e2e_case(seed, idx, res):
    """test contract: check(x,y) [assume(...)] -> self.h1(x,y) -> ... -> vm.assert*(f(x), g(y)) at call depth 0..3, the intermediate frames
    swallowing the callee's failure.  Verdict vs the reference over a grid of boundary values; reported models are replayed."""
    import e2e

    rng = random.Random(f"c13-e2e-{seed}-{idx}")
    U = ("uint", 256)
    depth = rng.randrange(0, 4)
    selr, spec = rng.choice([(s_, sp) for s_, sp in WORD_ASSERTS if sp["type"] in ("uint256", "int256")])
    nargs = 1 if spec["family"] in ("True", "False") else 2
    K = rng.choice(E_B)
    opsx = rng.choice([A.arg(0), A.arg(0) + [1, "ADD"], A.arg(0) + [K, "XOR"]])
    opsy = rng.choice([A.arg(1), [("push", K, 32)], A.arg(1) + A.arg(0) + ["ADD"]])
    leaf = A.vm(spec["sig"], *([opsx, opsy][:nargs])) + ["STOP"]
    fns = []
    names = [f"h{d}" for d in range(depth)]

    def call_self(name):
        # CALL address(this).<name>(x, y); result ignored (failure swallowed)
        sig = abi.signature(name, [U, U])
        return [("push", int.from_bytes(abi.selector(sig), "big") << 224, 32), 0x300, "MSTORE"] + A.arg(0) + [0x304, "MSTORE"] + A.arg(1) + [0x324, "MSTORE",
                0, 0, 0x44, 0x300, 0, "ADDRESS", 0xFFFF, "CALL", "POP"]

    pre = []
    assume_desc = None
    if rng.random() < 0.5:
        cmpop = rng.choice(["LT", "GT", "EQ"])
        c = rng.choice(E_B)
        pre = A.vm("assume(bool)", [("push", c, 32)] + A.arg(0) + [cmpop])
        assume_desc = (cmpop, c)
    body0 = pre + (call_self(names[0]) + ["STOP"] if depth else leaf)
    test = A.Fn("check_rel", [("x", U), ("y", U)], body0)
    fns.append(test)
    for d in range(depth):
        fns.append(A.Fn(names[d], [("x", U), ("y", U)], (call_self(names[d + 1]) + ["STOP"]) if d + 1 < depth else leaf))
    setup = A.Fn("setUp", [], ["STOP"])
    spec_c = A.ContractSpec("T", [setup] + fns)
    res["features"][f"e2e:depth:{depth}"] += 1
    res["features"]["e2e:" + spec["family"] + ":" + spec["type"]] += 1
    out = A.run(A.make_ctx(spec_c, funsigs=[test.sig]))
    res["counters"]["evaluations"] += 1
    if out.exception or len(out.results) != 1:
        res["counters"]["e2e_run_failed"] += 1
        return
    r = out.results[0]
    wit = dict(index=idx, part="E", depth=depth, assertion=spec["sig"], assume=assume_desc, exitcode=r.exitcode)
    failing = None
    nrej = 0
    for x in E_B + [K, (K - 1) % 2**256, (K + 1) % 2**256]:
        for y in E_B[:6] + [K]:
            rp = A.replay(spec_c, test, [x, y], setup_fn=setup)
            if rp.status == "assume-rejected":
                nrej += 1
            elif rp.status == "test-failed" or rp.fails():
                failing = failing or (x, y)
    res["counters"]["e2e_tests"] += 1
    res["counters"][f"e2e_depth_{depth}"] += 1
    if failing and r.exitcode == 0 and not out.warnings():
        res["violations"].append(dict(what="PASS although a boundary input makes the vm.assert* relation false (end to end)", key=f"e2e-missed-failure:{spec['family']}:{spec['type']}",
                                      input=[hex(v) for v in failing], **wit))
    if failing:
        res["counters"]["e2e_failing_inputs_exist"] += 1
    for m in r.models or []:
        if not m.is_valid:
            continue
        vals = A.model_values(test, m)
        rp = A.replay(spec_c, test, vals, setup_fn=setup)
        res["counters"]["e2e_models_replayed"] += 1
        if rp.status != "test-failed" and not rp.fails():
            res["violations"].append(dict(what="a counterexample reported for a vm.assert* test does not make the relation false on the reference (or is excluded by vm.assume)", key=f"e2e-bad-model:{spec['family']}:{spec['type']}",
                                          model=[hex(v) for v in vals], replay=rp.status, **wit))
        else:
            res["distinct"].append(f"e2e:{idx}")
    for v in res["violations"]:
        v["prop"] = "C13"


def worker(task):
    _imports()
    kind, lo, hi, seed = task
    res = new_result()
    if kind == "audit":
        audit_table(res)
    elif kind == "e2e":
        for idx in range(lo, hi):
            e2e_case(seed, idx, res)
    else:
        for idx in range(lo, hi):
            dynamic_case(seed, idx, res)
    return res


def main():
    run = Run("C13", "exploration")
    _imports()
    run.rule = ("all selectors of the assert table audited against generated forge-std signatures (SMT validity for word types, boundary cases for dynamic types); generated programs with vm.assume / vm.assert* at "
                "nesting depth 0..3 (CALL/STATICCALL/DELEGATECALL chains that swallow callee failures) compared with the Foundry reference model under injected solver unknowns; "
                "non-trivial = distinct audited signature with a discharged obligation / all boundary cases, or distinct dynamic program")
    run.assumptions = ["forge-std assertion families generated combinatorially (no Vm.sol offline)", "bool/address operands are canonical ABI values (dirty upper bits are not judged)"]
    if run.replay:
        w = json.load(open(run.replay))["witness"]
        res = new_result()
        if w.get("part") == "E":
            e2e_case(run.seed, int(w["index"]), res)
        elif "index" in w:
            dynamic_case(run.seed, int(w["index"]), res)
        else:
            audit_table(res)
        run.merge(res)
        run.finish()
    tasks = [("audit", 0, 0, run.seed)]
    n = run.n(420, 10000)
    tasks += [("dyn", lo, min(n, lo + 10), run.seed) for lo in range(0, n, 10)]
    ne = run.n(96, 2000)
    tasks += [("e2e", lo, min(ne, lo + 4), run.seed) for lo in range(0, ne, 4)]
    run_pool(run, worker, tasks, soft_timeout=900)
    run.extra["table_size"] = len(handlers)
    if run.counters.get("selectors_audited", 0) != len(handlers):
        run.inconclusive.append("not every selector of the table was audited")
    run.require("smt_discharged", 30)
    run.require("boundary_cases", 100)
    run.require("dynamic_programs", 200)
    run.require("inputs_rejected_by_assume", 20)
    for d in range(4):
        run.require(f"dynamic_depth_{d}", 20)
        run.require(f"e2e_depth_{d}", 8)
    run.require("e2e_models_replayed", 30)
    run.finish()


if __name__ == "__main__":
    main()
