"""C16 — the unsat-core cache never changes a verdict.

 1. online soundness monitor: a wrapper on halmos.solve.check_unsat_cores records every cache hit (query text +
    the matching core); after the run each hit is re-decided by a real solve of that very query (z3 API in a
    fresh context): a satisfiable query answered from the cache is a violation;
 2. differential: the same generated tests with --cache-solver on and off: verdicts and numbers of
    counterexamples per test must be equal, and every valid counterexample must replay on the reference EVM;
 3. history pressure: many-path tests (2^n leaves, each a potential failure with unsat cores of different shapes
    shared between leaves), several tests per contract and several contracts per process, gc.collect() after
    every yielded path; the monitor tracks assertion id -> term to report identifier recycling."""

import gc
import hashlib
import json
import random
import re
import threading

import z3

import report
from report import Run, new_result, run_pool


def _imports():
    global A, testgen, e2e, solve_mod, sevm_mod, hm
    import artifacts as A
    import e2e
    import testgen
    import halmos.__main__ as hm
    import halmos.sevm as sevm_mod
    import halmos.solve as solve_mod


import os as _os
STUB = _os.path.join(report.VERIF, "lib", "stubsolver.sh")

REC = {"hits": [], "lookups": 0, "on": False, "idmap": {}, "recycled": 0, "gc": False, "gc_cycles": 0, "lock": threading.Lock()}
_installed = False


def install():
    global _installed
    if _installed:
        return
    _installed = True
    orig_check = solve_mod.check_unsat_cores
    orig_to_smt2 = sevm_mod.Path.to_smt2
    orig_run = sevm_mod.SEVM.run

    def check_unsat_cores(query, unsat_cores):
        r = orig_check(query, unsat_cores)
        if REC["on"]:
            with REC["lock"]:
                REC["lookups"] += 1
                if r:
                    REC["hits"].append(dict(smtlib=query.smtlib, assertions=list(query.assertions), cores=[list(c) for c in unsat_cores]))
        return r

    def to_smt2(self, args):
        q = orig_to_smt2(self, args)
        if REC["on"] and args.cache_solver:
            with REC["lock"]:
                for c in self.conditions:
                    i = c.get_id()
                    h = hash(c.sexpr()) if i not in REC["idmap"] or True else None
                    old = REC["idmap"].get(i)
                    if old is not None and old != h:
                        REC["recycled"] += 1
                    REC["idmap"][i] = h
        return q

    def run(self, ex0):
        for e in orig_run(self, ex0):
            yield e
            if REC["gc"]:
                gc.collect()
                REC["gc_cycles"] += 1

    solve_mod.check_unsat_cores = check_unsat_cores
    sevm_mod.Path.to_smt2 = to_smt2
    sevm_mod.SEVM.run = run


def leaves_test(rng, idx, n):
    """2^n leaves, each ends in a guarded Panic: some leaves satisfiable, most unsat with small shared cores"""
    U = ("uint", 256)
    toks = []
    for i in range(n):
        toks += A.arg(0) + [1 << i, "AND", f"@m{i}", "JUMPI", f":m{i}"]
    kind = rng.choice(["some-sat", "all-unsat", "some-sat", "parity"])
    mask = (1 << rng.randrange(1, min(n, 3) + 1)) - 1
    val = rng.getrandbits(8) & mask
    if kind == "some-sat":
        toks += A.arg(0) + [mask, "AND", val, "EQ"]
        nsat = 2 ** (n - bin(mask).count("1"))
    elif kind == "all-unsat":
        # (x & mask == val) and (y == x ^ 1) and ((y & 1) == (x & 1))   -- contradiction found only by the solver
        toks += A.arg(0) + [mask, "AND", val, "EQ"] + A.arg(0) + [1, "XOR"] + A.arg(1) + ["EQ", "AND"] + A.arg(1) + [1, "AND"] + A.arg(0) + [1, "AND", "EQ", "AND"]
        nsat = 0
    else:
        # y == x + 2 and y odd  and x even-branch...  satisfiable only on leaves where bit0 of x is 1
        toks += A.arg(0) + [2, "ADD"] + A.arg(1) + ["EQ"] + A.arg(1) + [1, "AND", "AND"]
        nsat = 2 ** (n - 1)
    toks += ["@bad", "JUMPI", "STOP", ":bad"] + A.panic(1)
    fn = A.Fn(f"check_leaves{idx}", [("x", U), ("y", U)], toks)
    return fn, nsat, kind


def transfer_guard_test(rng, idx):
    """path A: (v > balance) and a value transfer of v (implicit, non-branching constraint balance >= v): unsat.
    path B: the same branching condition without the transfer, satisfiable.  One failing input exists (B)."""
    U = ("uint", 256)
    variant = rng.randrange(2)
    wa, wb = (1, 2) if variant == 0 else (2, 1)
    call = [0, 0, 0, 0] + A.arg(0) + [0x9999, 0xFFFF, "CALL", "@bad", "JUMPI", "STOP"]
    other = A.arg(1) + [wb, "EQ", "@bad", "JUMPI", "STOP"]
    if variant == 0:
        # halmos explores the fall-through side of a JUMPI first: here the satisfiable path B comes first
        mid = A.arg(1) + [wa, "EQ", "@callpath", "JUMPI"] + other + [":callpath"] + call
    else:
        # ... and here the unsatisfiable path A (with the implicit transfer constraint) is explored and answered first
        mid = A.arg(1) + [wa, "EQ", "ISZERO", "@otherpath", "JUMPI"] + call + [":otherpath"] + other
    toks = ["SELFBALANCE"] + A.arg(0) + ["GT", "ISZERO", "@end", "JUMPI"] + mid + [":end", "STOP", ":bad"] + A.panic(1)
    return A.Fn(f"check_transfer{idx}", [("v", U), ("w", U)], toks), 1, "transfer-guard"


def bigcore_test(rng, idx, nbits=None):
    """path A needs an unsat core of nbits+1 assertions (all bit conditions + the guard); sibling path B shares the bit
    conditions and is satisfiable"""
    U = ("uint", 256)
    nbits = nbits or rng.choice([24, 30, 40])
    mask = (1 << nbits) - 1
    toks = []
    for i in range(nbits):
        toks += A.arg(0) + [1 << i, "AND", "ISZERO", "@out", "JUMPI"]
    pathB = A.arg(0) + [0xFF, "AND", 0xFF, "EQ"] + A.arg(1) + [2, "EQ", "AND", "@bad", "JUMPI", "STOP"]          # B: satisfiable
    pathA = A.arg(0) + [mask, "AND", mask, "EQ", "ISZERO", "@bad", "JUMPI", "STOP"]                              # A: needs every bit condition
    if rng.random() < 0.5:
        toks += A.arg(1) + [1, "EQ", "@pa", "JUMPI"] + pathB + [":pa"] + pathA      # B explored first
    else:
        toks += A.arg(1) + [1, "EQ", "ISZERO", "@pb", "JUMPI"] + pathA + [":pb"] + pathB   # A explored (and answered) first
    toks += [":out", "STOP", ":bad"] + A.panic(1)
    return A.Fn(f"check_bigcore{idx}", [("x", U), ("w", U)], toks), 1, f"bigcore-{nbits}"


def resolve_hit(hit, res):
    """independent decision of a query that was answered 'unsat' from the cache"""
    ctx = z3.Context()
    text = hit["smtlib"]
    try:
        parsed = z3.parse_smt2_string(text, ctx=ctx)
    except z3.Z3Exception as e:
        res["counters"]["hit_parse_errors"] += 1
        return None
    s = z3.Solver(ctx=ctx)
    s.set(timeout=10000)
    for a in parsed:
        s.add(a)
    for i in hit["assertions"]:
        s.add(z3.Bool(str(i), ctx))
    r = s.check()
    res["counters"]["hits_resolved"] += 1
    if r == z3.unsat:
        res["counters"]["hits_confirmed_unsat"] += 1
        return None
    if r == z3.sat:
        return "sat"
    res["counters"]["hits_resolve_unknown"] += 1
    return None


def run_mode(spec, setup, tests_sigs, cache, rng_seed, solver="yices", threads=None, unknown_p=0.0):
    import symrun

    # the branching solver is made to answer `unknown` with probability p, so that infeasible branches survive
    # exploration and reach the assertion solver (this is what a 1 ms branching timeout does on hard constraints)
    symrun.MON.unknown_p = unknown_p
    symrun.MON.unknown_rng = random.Random(rng_seed)
    symrun.MON.step_budget = 0
    REC["hits"].clear()
    REC["lookups"] = 0
    REC["idmap"].clear()
    REC["on"] = True
    REC["gc"] = cache
    try:
        ov = dict(cache_solver=cache, solver=solver, loop=3)
        if threads:
            ov["solver_threads"] = threads
        out = A.run(A.make_ctx(spec, funsigs=tests_sigs, overrides=ov))
    finally:
        REC["on"] = False
        REC["gc"] = False
        symrun.MON.unknown_p = 0.0
    return out, list(REC["hits"]), REC["lookups"]


def case(seed, idx, res):
    rng = random.Random(f"c16-{seed}-{idx}")
    spec, setup, tests = testgen.gen_contract(rng, rng.randrange(1, 3), symbolic_setup=rng.random() < 0.3,
                                              kinds=["xor_add", "mul", "div", "two_args", "storage", "conj3", "unsat", "smod_zero", "addmod_zero", "signed", "shift"])
    extra = []
    for j in range(rng.randrange(1, 3)):
        k = rng.random()
        if k < 0.45:
            fn, nsat, kind = leaves_test(rng, j, rng.randrange(3, 7))
        elif k < 0.72:
            fn, nsat, kind = transfer_guard_test(rng, j)
        else:
            fn, nsat, kind = bigcore_test(rng, j)
        extra.append((fn, nsat, kind))
        spec.fns.append(fn)
    spec._runtime = None
    sigs = [t.fn.sig for t in tests] + [fn.sig for fn, _, _ in extra]
    threads = rng.choice([1, 1, 1, 4])
    p = rng.choice([0.0, 0.5, 1.0])
    res["features"][f"branching-unknown-p={p}"] += 1
    on, hits, lookups = run_mode(spec, setup, sigs, True, idx, threads=threads, unknown_p=p)
    off, _, _ = run_mode(spec, setup, sigs, False, idx, threads=threads, unknown_p=p)
    res["counters"]["contracts"] += 1
    res["counters"]["evaluations"] += 1
    res["counters"]["cache_lookups"] += lookups
    res["counters"]["cache_hits"] += len(hits)
    res["counters"]["id_recycling_events"] += REC["recycled"]
    REC["recycled"] = 0
    res["counters"]["gc_cycles"] += REC["gc_cycles"]
    REC["gc_cycles"] = 0
    wit = dict(index=idx, tests=sigs, threads=threads)
    if on.exception or off.exception or len(on.results) != len(off.results):
        res["counters"]["run_failed"] += 1
        return
    # 1. online monitor
    for h in hits:
        if resolve_hit(h, res) == "sat":
            res["violations"].append(dict(what="a satisfiable query was answered unsat from the unsat-core cache", key="unsound-hit", cores=h["cores"][:5], assertions=h["assertions"][:40], smtlib_head=h["smtlib"][:600], **wit))
            break
    # 2. differential
    for a, b in zip(on.results, off.results):
        res["counters"]["differential_pairs"] += 1
        na = len([m for m in (a.models or []) if m.is_valid])
        nb = len([m for m in (b.models or []) if m.is_valid])
        if a.exitcode != b.exitcode or na != nb:
            res["violations"].append(dict(what="enabling the solver cache changed a verdict / the set of counterexamples", key="differential", test=a.name, with_cache=[a.exitcode, na], without_cache=[b.exitcode, nb], **wit))
    # ground truth for the leaves tests: number of counterexamples
    bysig = on.by_sig()
    for fn, nsat, kind in extra:
        r = bysig.get(fn.sig)
        if r is None:
            continue
        n = len(r.models or [])
        res["features"]["leaves:" + kind] += 1
        if n != nsat or (r.exitcode == 0) != (nsat == 0):
            res["violations"].append(dict(what="number of counterexamples with the cache on differs from the ground truth", key="leaves-count:" + kind, test=fn.sig, got=n, want=nsat, exitcode=r.exitcode, **wit))
        for m in (r.models or [])[:4]:
            if m.is_valid:
                rp = A.replay(spec, fn, A.model_values(fn, m), setup_fn=setup)
                res["counters"]["cex_replays"] += 1
                if rp.status in ("unsupported", "setup-failed"):
                    res["counters"]["cex_replay_unsupported"] += 1
                    continue
                if not rp.fails({1}):
                    res["violations"].append(dict(what="counterexample reported with the cache on does not replay", key="cex-replay", test=fn.sig, **wit))
    if hits:
        res["distinct"].append(f"{idx}")
    if idx % 17 == 0:
        res["samples"].append(dict(index=idx, tests=sigs, cache_hits=len(hits), lookups=lookups, verdicts=[r.exitcode for r in on.results]))


def switch_fn(name, n, base, contradictory=False):
    """check(x): arm i is taken iff (x & 0xFFFF) == base + i; the arm panics (contradictory: only if additionally (x & 0xFF) differs from the
    low byte that the arm condition fixes, i.e. never — but only a solver sees that: `var == const` would be substituted away by halmos)"""
    U = ("uint", 256)
    body = []
    for i in range(n):
        body += A.arg(0) + [0xFFFF, "AND", base + i, "EQ", f"@arm{i}", "JUMPI"]
    body += ["STOP"]
    for i in range(n):
        body += [f":arm{i}"]
        if contradictory:
            body += A.arg(0) + [0xFF, "AND", ((base + i) & 0xFF) ^ 0x55, "EQ", f"@hit{i}", "JUMPI", "STOP", f":hit{i}"]
        body += A.panic(1)
    return A.Fn(name, [("x", U)], body)


def case_empty_core(seed, idx, res):
    """a solver that answers `unsat` with an empty unsat core "()" (stub): an empty core says nothing and must not make the cache answer the
    following queries; every potential failure must still reach the solver and the test must FAIL"""
    import os, shutil, tempfile

    rng = random.Random(f"c16-empty-{seed}-{idx}")
    n = rng.randrange(3, 7)
    fn = switch_fn("check_sw", n, 1)
    setup = A.Fn("setUp", [], ["STOP"])
    spec = A.ContractSpec("E", [setup, fn], filename="E.sol")
    work = os.path.join(report.VERIF, ".work")
    os.makedirs(work, exist_ok=True)
    sdir = tempfile.mkdtemp(prefix="c16-stub-", dir=work)
    try:
        open(os.path.join(sdir, "default.kind"), "w").write("firstnocore")
        REC["hits"].clear()
        REC["on"] = True
        try:
            out = A.run(A.make_ctx(spec, funsigs=[fn.sig], overrides=dict(cache_solver=True, solver_command=f"{STUB} {sdir}", solver_threads=1, solver_timeout_assertion=20.0)))
        finally:
            REC["on"] = False
        hits = list(REC["hits"])
        calls = len(open(os.path.join(sdir, "log")).read().splitlines()) if os.path.exists(os.path.join(sdir, "log")) else 0
    finally:
        shutil.rmtree(sdir, ignore_errors=True)
    res["counters"]["evaluations"] += 1
    res["counters"]["empty_core_histories"] += 1
    if out.exception or not out.results:
        res["counters"]["run_failed"] += 1
        return
    r = out.results[0]
    wit = dict(index=idx, mode="empty-core", arms=n, solver_calls=calls, exitcode=r.exitcode, cache_hits=len(hits))
    if calls != n or r.exitcode != 1:
        res["violations"].append(dict(what="after an `unsat` reply with an empty unsat core the cache answered later queries (they never reached the solver / the verdict changed)",
                                      key="empty-core-poisons-cache", **wit))
    else:
        res["distinct"].append(f"empty:{idx}")


def case_cross_context(seed, idx, res):
    """cores cached while solving one test must not answer queries of another function context: contract A caches many unsat cores, its terms
    are garbage-collected, then contract B (fresh terms, possibly recycled z3 ids) has only satisfiable failing paths"""
    import symrun

    rng = random.Random(f"c16-cross-{seed}-{idx}")
    na, nb = rng.choice([24, 40]), rng.choice([80, 120])
    fa = switch_fn("check_a", na, 1, contradictory=True)
    fb = switch_fn("check_b", nb, 5_000)
    setup = A.Fn("setUp", [], ["STOP"])
    specA = A.ContractSpec("XA", [setup, fa], filename="XA.sol")
    specB = A.ContractSpec("XB", [A.Fn("setUp", [], ["STOP"]), fb], filename="XB.sol")
    ov = dict(cache_solver=True, solver="yices", solver_threads=rng.choice([1, 4]), width=0)
    # A: the branching solver answers unknown, so the contradictory arms survive to the assertion solver and leave unsat cores
    symrun.MON.unknown_p = 1.0
    symrun.MON.unknown_rng = random.Random(idx)
    symrun.MON.step_budget = 0
    try:
        outA = A.run(A.make_ctx(specA, funsigs=[fa.sig], overrides=ov))
    finally:
        symrun.MON.unknown_p = 0.0
    del outA
    gc.collect()
    REC["hits"].clear()
    REC["on"] = True
    try:
        outB = A.run(A.make_ctx(specB, funsigs=[fb.sig], overrides=ov))
    finally:
        REC["on"] = False
    hits = list(REC["hits"])
    res["counters"]["evaluations"] += 1
    res["counters"]["cross_context_histories"] += 1
    if outB.exception or not outB.results:
        res["counters"]["run_failed"] += 1
        return
    r = outB.results[0]
    n = len(r.models or [])
    wit = dict(index=idx, mode="cross-context", arms_a=na, arms_b=nb, exitcode=r.exitcode, models=n, cache_hits=len(hits))
    for h in hits:
        res["counters"]["cache_hits"] += 1
        if resolve_hit(h, res) == "sat":
            res["violations"].append(dict(what="a satisfiable query was answered unsat from the unsat-core cache (cores of another function context)", key="unsound-hit-cross-context",
                                          cores=h["cores"][:3], assertions=h["assertions"][:20], **wit))
            break
    if n != nb or r.exitcode != 1:
        res["violations"].append(dict(what="counterexamples lost after another function context had filled the unsat-core cache", key="cross-context-count", **wit))
    else:
        res["distinct"].append(f"cross:{idx}")


def case_crafted_cores(seed, idx, res):
    """crafted histories through the real solve_end_to_end / check_unsat_cores with a scripted solver: after a query with assertion ids Q1 was
    answered unsat with core C, a later query Q is answered from the cache iff C is a subset of Q.  Subsets of C, sets overlapping C and
    disjoint sets must reach the solver (which answers sat); supersets of C may be answered unsat without a solver call."""
    import os, shutil, tempfile, pathlib
    from halmos.config import ConfigSource, default_config
    from halmos.sevm import SMTQuery

    rng = random.Random(f"c16-crafted-{seed}-{idx}")
    work = os.path.join(report.VERIF, ".work")
    os.makedirs(work, exist_ok=True)
    sdir = tempfile.mkdtemp(prefix="c16-crafted-", dir=work)
    ddir = tempfile.mkdtemp(prefix="c16-dump-", dir=work)
    try:
        args = default_config().with_overrides(ConfigSource.command_line, cache_solver=True, solver_command=f"{STUB} {sdir}", solver_timeout_assertion=20.0)
        sctx = solve_mod.SolvingContext(dump_dir=pathlib.Path(ddir))
        ids = [str(1000 + i) for i in range(8)]

        def query(assertions):
            decl = "".join(f"(declare-const |{i}| Bool)\n" for i in assertions)
            return SMTQuery(decl + "(assert true)", list(assertions))

        core = sorted(rng.sample(ids[:5], rng.choice([2, 3])))
        q1 = sorted(set(core) | set(rng.sample(ids, 2)))
        open(os.path.join(sdir, "0.smt2.kind"), "w").write("unsatcore")
        open(os.path.join(sdir, "0.smt2.core"), "w").write(" ".join(f"<{i}>" for i in core))
        open(os.path.join(sdir, "default.kind"), "w").write("sat")
        out1 = solve_mod.solve_end_to_end(solve_mod.PathContext(args=args, path_id=0, solving_ctx=sctx, query=query(q1)))
        if out1.unsat_core:
            sctx.unsat_cores.append(out1.unsat_core)  # what the solver callback does with an unsat answer
        res["counters"]["evaluations"] += 1
        res["counters"]["crafted_histories"] += 1
        wit = dict(index=idx, mode="crafted", first_query=q1, core=core, parsed_core=out1.unsat_core)
        if str(out1.result) != "unsat" or sorted(out1.unsat_core or []) != core:
            res["violations"].append(dict(what="the unsat core reported by the solver was not parsed as given", key="crafted-core-parse", result=str(out1.result), **wit))
            return
        later = {"strict-subset": sorted(core[:-1]), "equal": list(core), "superset": sorted(set(core) | {ids[7]}), "overlap": sorted(set(core[:1]) | {ids[6]}), "disjoint": [ids[5], ids[6]]}
        for pid, (name, q) in enumerate(later.items(), start=1):
            calls0 = len(open(os.path.join(sdir, "log")).read().splitlines())
            o = solve_mod.solve_end_to_end(solve_mod.PathContext(args=args, path_id=pid, solving_ctx=sctx, query=query(q)))
            calls = len(open(os.path.join(sdir, "log")).read().splitlines()) - calls0
            contains = set(core) <= set(q)
            res["counters"]["crafted_lookups"] += 1
            if not contains and (calls != 1 or str(o.result) != "sat"):
                res["violations"].append(dict(what="a query that does not contain the cached unsat core was answered from the cache", key="crafted-core-" + name, query=q, result=str(o.result), solver_calls=calls, **wit))
                return
            if contains and str(o.result) != "unsat" and calls == 0:
                res["violations"].append(dict(what="inconsistent cache answer", key="crafted-core-contains-" + name, query=q, result=str(o.result), **wit))
                return
            if contains and calls == 0:
                res["counters"]["crafted_hits_on_supersets"] += 1
        res["distinct"].append(f"crafted:{idx}")
    finally:
        shutil.rmtree(sdir, ignore_errors=True)
        shutil.rmtree(ddir, ignore_errors=True)


def case_weaker_query(seed, idx, res):
    """two frontier states of one transaction sequence, one with an extra path constraint (armEven: the stored value is even) and one without
    (arm): the failing path of the invariant on the first is unsat and leaves a core; the failing path on the second is a *weakening* of that
    query (a subset of its assertions) and is satisfiable.  The contradiction needs the real meaning of the multiplication abstraction, so
    only the assertion solver can decide it.  With the cache on the test must FAIL exactly as with the cache off."""
    import invgen

    rng = random.Random(f"c16-weaker-{seed}-{idx}")
    U = ("uint", 256)
    mask = rng.choice([1, 3])
    fns = [A.Fn("set", [("v", U)], A.arg(0) + [0, "SSTORE", 0, 1, "SSTORE", "STOP"]),
           A.Fn("armEven", [], [0, "SLOAD", 1, "AND", "@odd", "JUMPI", 1, 1, "SSTORE", "STOP", ":odd", 0, 0, "REVERT"]),
           A.Fn("arm", [], [1, 1, "SSTORE", "STOP"]),
           A.Fn("val", [], [0, "SLOAD", 0, "MSTORE", 32, 0, "RETURN"], mutability="view", outputs=[U]),
           A.Fn("armed", [], [1, "SLOAD", 0, "MSTORE", 32, 0, "RETURN"], mutability="view", outputs=[U])]
    if idx % 2:
        fns[1], fns[2] = fns[2], fns[1]
    target = A.ContractSpec("ArmT", fns, filename="ArmT.sol")
    init = target.creation()
    st = []
    padded = init + bytes((-len(init)) % 32)
    for i in range(0, len(padded), 32):
        st += [("push", int.from_bytes(padded[i : i + 32], "big"), 32), 0x400 + i, "MSTORE"]
    setup = A.Fn("setUp", [], st + [len(init), 0x400, 0, "CREATE", 0, "SSTORE", "STOP"])
    view = lambda name: A.call_raw(invgen.TARGET0, [f for f in fns if f.name == name][0].selector, ret=0x500) + ["POP", 0x500, "MLOAD"]
    # x fresh; fails iff armed == 1 and (val * x) & 1 == 1
    inv = A.Fn("invariant_odd_product", [], view("armed") + [1, "EQ", "ISZERO", "@ok", "JUMPI"] + A.svm_create_uint256("x") + view("val") + ["MUL", 1, "AND", 1, "EQ", "@bad", "JUMPI", ":ok", "STOP", ":bad"] + A.panic(1))
    spec = A.ContractSpec(f"WQ{idx}", [setup, inv], filename=f"WQ{idx}.sol")
    outs = {}
    for cache in (True, False):
        REC["hits"].clear()
        REC["on"] = cache
        try:
            outs[cache] = A.run(A.make_ctx(spec, funsigs=[inv.sig], overrides=dict(invariant_depth=2, cache_solver=cache, solver="yices", solver_threads=1), others=[target]))
        finally:
            REC["on"] = False
        if cache:
            hits = list(REC["hits"])
    res["counters"]["evaluations"] += 1
    res["counters"]["weaker_query_histories"] += 1
    on, off = outs[True], outs[False]
    if on.exception or off.exception or len(on.results) != 1 or len(off.results) != 1:
        res["counters"]["run_failed"] += 1
        return
    wit = dict(index=idx, mode="weaker-query", with_cache=on.results[0].exitcode, without_cache=off.results[0].exitcode, cache_hits=len(hits))
    for h in hits:
        res["counters"]["cache_hits"] += 1
        if resolve_hit(h, res) == "sat":
            res["violations"].append(dict(what="a satisfiable query was answered unsat from the unsat-core cache (a weakening of a cached unsat query)", key="unsound-hit-weaker-query", cores=h["cores"][:3], assertions=h["assertions"][:20], **wit))
            break
    if on.results[0].exitcode != off.results[0].exitcode or on.results[0].exitcode != 1:
        res["violations"].append(dict(what="enabling the solver cache changed the verdict of an invariant test whose later frontier state has a weaker failing query than an earlier one", key="differential-weaker-query", **wit))
    else:
        res["distinct"].append(f"weaker:{idx}")


def case_invariant_cache(seed, idx, res):
    """invariant tests solve queries of many transactions / frontier states in one function context: with --cache-solver the verdicts and the
    number of counterexamples must equal those without it (ground truth for FAIL from the explicit-state oracle), and every cache hit is
    re-solved.  Frontier states carry different path prefixes, so one state's query can be a subset or a superset of another state's core."""
    import invgen2

    rng = random.Random(f"c16-inv-{seed}-{idx}")
    c = invgen2.make_case(rng, kind=rng.choice(["setter", "setter", "flags", "counter", "owner"]), depth=rng.choice([1, 2, 2]))
    others = list(c.others)
    sigs = [f.sig for f in c.invs]
    outs = {}
    hits_on = []
    import symrun

    up = rng.choice([0.0, 0.5, 0.5, 1.0])  # branching `unknown`s let infeasible candidates reach the assertion solver, which leaves unsat cores
    threads = rng.choice([1, 4])
    res["features"][f"invariant-cache:unknown_p={up}"] += 1
    for cache in (True, False):
        REC["hits"].clear()
        REC["on"] = cache
        REC["gc"] = cache
        symrun.MON.unknown_p, symrun.MON.unknown_rng, symrun.MON.step_budget = up, random.Random(idx), 0
        try:
            outs[cache] = A.run(A.make_ctx(c.test, funsigs=sigs, overrides=dict(invariant_depth=c.depth, cache_solver=cache, solver="yices", solver_threads=threads), others=others))
        finally:
            REC["on"] = False
            REC["gc"] = False
            symrun.MON.unknown_p = 0.0
        if cache:
            hits_on = list(REC["hits"])
    res["counters"]["evaluations"] += 1
    res["counters"]["invariant_cache_histories"] += 1
    res["counters"]["gc_cycles"] += REC["gc_cycles"]
    REC["gc_cycles"] = 0
    on, off = outs[True], outs[False]
    wit = dict(index=idx, mode="invariant-cache", kind=c.kind, depth=c.depth)
    if on.exception or off.exception or len(on.results) != len(sigs) or len(off.results) != len(sigs):
        res["counters"]["run_failed"] += 1
        return
    for h in hits_on:
        res["counters"]["cache_hits"] += 1
        if resolve_hit(h, res) == "sat":
            res["violations"].append(dict(what="a satisfiable query was answered unsat from the unsat-core cache (invariant test)", key="unsound-hit-invariant", cores=h["cores"][:3], assertions=h["assertions"][:20], **wit))
            break
    orc = invgen2.oracle(c, c.depth, max_nodes=2000)
    for f, a, b in zip(c.invs, on.results, off.results):
        res["counters"]["differential_pairs"] += 1
        if a.exitcode != b.exitcode:
            res["violations"].append(dict(what="enabling the solver cache changed the verdict of an invariant test", key="differential-invariant", test=f.sig, with_cache=a.exitcode, without_cache=b.exitcode, **wit))
        if orc["inv"].get(f.sig) is not None and a.exitcode == 0 and not on.warnings():
            res["violations"].append(dict(what="invariant test PASS with the cache on although a call sequence breaks the invariant", key="cache-missed-sequence", test=f.sig, **wit))
    res["distinct"].append(f"invcache:{idx}")


def worker(task):
    _imports()
    install()
    lo, hi, seed = task
    res = new_result()
    for idx in range(lo, hi):
        case(seed, idx, res)
    return res


def worker2(task):
    _imports()
    install()
    kind, lo, hi, seed = task
    res = new_result()
    for idx in range(lo, hi):
        {"empty": case_empty_core, "cross": case_cross_context, "invcache": case_invariant_cache, "weaker": case_weaker_query, "crafted": case_crafted_cores}[kind](seed, idx, res)
    return res


def main():
    run = Run("C16", "exploration")
    _imports()
    run.rule = ("generated contracts mixing grammar tests with many-path 'leaves' tests (2^n potential-failure paths with shared unsat cores), run with --cache-solver on (gc.collect() after every path) "
                "and off in one process; every cache hit re-solved; non-trivial = distinct contract whose run produced at least one cache hit")
    run.assumptions = ["z3 re-decides cache hits", "ground truth for the leaves tests is known by construction"]
    if run.replay:
        w = json.load(open(run.replay))["witness"]
        res = new_result()
        install()
        {"empty-core": case_empty_core, "cross-context": case_cross_context, "invariant-cache": case_invariant_cache, "weaker-query": case_weaker_query, "crafted": case_crafted_cores}.get(w.get("mode"), case)(run.seed, w["index"], res)
        run.merge(res)
        run.finish()
    n = run.n(70, 2000)
    tasks = [(lo, min(n, lo + 2), run.seed) for lo in range(0, n, 2)]
    run_pool(run, worker, tasks, soft_timeout=900)
    tasks2 = [("empty", i, i + 2, run.seed) for i in range(0, run.n(8, 100), 2)] + [("cross", i, i + 1, run.seed) for i in range(run.n(3, 80))]
    tasks2 += [("invcache", i, i + 2, run.seed) for i in range(0, run.n(8, 300), 2)]
    tasks2 += [("weaker", i, i + 2, run.seed) for i in range(0, run.n(2, 40), 2)]
    tasks2 += [("crafted", i, i + 5, run.seed) for i in range(0, run.n(20, 400), 5)]
    run_pool(run, worker2, tasks2, soft_timeout=900)
    run.require("empty_core_histories", 6)
    run.require("cross_context_histories", 3)
    run.require("invariant_cache_histories", 6)
    run.require("weaker_query_histories", 2)
    run.require("crafted_hits_on_supersets", 10)
    run.require("cache_hits", 100)
    run.require("hits_confirmed_unsat", 100)
    run.require("differential_pairs", 100)
    run.require("gc_cycles", 500)
    run.finish()


if __name__ == "__main__":
    main()
