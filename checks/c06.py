"""C06 — word-level instruction semantics are exact and total.

Monitors (all on the *values halmos actually returns*):
  A. stack-injection differential: a one-instruction program is run through SEVM.run with the
     operands placed on the stack in every representation (int-backed BV, term-backed BV,
     narrow zero-extended term, concrete Bool, symbolic Bool); the returned word, evaluated at
     the pinned valuation with the abstractions read exactly, must equal the yellow-paper result.
     Grids: boundary values and (thorough) the exhaustive 8-bit grid, zero- and sign-extended.
  B. instruction-level differential: the operands are *produced by real instructions*
     (PUSH, CALLDATALOAD, LT/GT/SLT/SGT/EQ/ISZERO and AND/OR/XOR of those) and the whole
     program is compared with the reference EVM.
  C. universal check by SMT: for symbolic operands (and one operand fixed to special constants)
     result term == independent z3 specification, proved unsat of the negation, per term.
  Totality/promptness: any exception that is not an EVM exception, a stuck path, or a watchdog
  firing is a violation (the property demands a prompt result without internal exception)."""

import itertools
import json
import random
import sys
import time

import z3

import bvspec
import pathmodel
import refevm
import report
from asm import asm
from bvspec import BOUNDARY, PY, Z, M
from report import Run, new_result, pmap

OPS = list(PY)
BOOL_PRODUCERS = ["LT", "GT", "SLT", "SGT", "EQ", "ISZERO"]


def _imports():
    global symrun, BV, HBool, TRUE, FALSE, SEVM, sevm_mod
    import symrun
    import halmos.sevm as sevm_mod
    from halmos.bitvec import FALSE, TRUE
    from halmos.bitvec import HalmosBitVec as BV
    from halmos.bitvec import HalmosBool as HBool
    from halmos.sevm import SEVM


# ---------------------------------------------------------------------------- part A
_env = {}


EXP_BY_CONST = [2, 0, 3, 4, 5, 8, 16]  # --smt-exp-by-const values the EXP cases are run under (2 is the default)


def _sevm(expc=2):
    if ("sv", expc) not in _env:
        from halmos.calldata import FunctionInfo

        args = symrun.make_args() if expc == 2 else symrun.make_args(smt_exp_by_const=expc)
        _env[("sv", expc)] = (SEVM(args, FunctionInfo("T", "t", "t()", "f8a8fd6d")), args)
    return _env[("sv", expc)]


TAIL = asm([0, "MSTORE", 32, 0, "RETURN"])


def inject_run(opcode, operands, expc=2):
    """one-instruction SEVM.run with `operands` (halmos objects, top of stack first) injected.
    returns (error_name|None, stuck, out(bytes|z3|None), conds, crash)"""
    from halmos.__main__ import mk_block, mk_solver
    from halmos.bytevec import ByteVec
    from halmos.sevm import CallContext, Contract, Message, Path
    from halmos.utils import EVM as OPC

    sv, args = _sevm(expc)
    code = Contract((bytes([opcode]) if isinstance(opcode, int) else bytes(opcode)) + TAIL)
    this = z3.BitVecVal(0x1000, 160)
    msg = Message(target=this, caller=z3.BitVecVal(0x2000, 160), origin=z3.BitVecVal(0x2000, 160),
                  value=z3.BitVecVal(0, 256), data=ByteVec(), call_scheme=OPC.CALL)
    ex = sv.mk_exec(code={this: code}, storage={this: sv.mk_storagedata()}, transient_storage={this: sv.mk_storagedata()},
                    balance=z3.Array("balance_0", z3.BitVecSort(160), z3.BitVecSort(256)), block=mk_block(),
                    context=CallContext(msg), pgm=code, path=Path(mk_solver(args)))
    ex.st.stack.extend(reversed(operands))
    outs = []
    # this run does not go through symrun.run_symbolic: the step budget left behind by an earlier run in this process must not apply
    symrun.MON.steps = 0
    symrun.MON.step_budget = 0
    try:
        for e in sv.run(ex):
            o = e.context.output
            outs.append((symrun.error_name(o.error), symrun.is_stuck(e), o.data.unwrap() if o.data is not None else None,
                         list(e.path.conditions), str(o.error)[:200] if o.error else None))
    except Exception as exn:
        import traceback

        return None, None, None, None, "".join(traceback.format_exception_only(type(exn), exn))[-400:]
    if len(outs) != 1:
        return None, None, None, None, f"{len(outs)} paths for a one-instruction program"
    err, stuck, out, conds, msgtxt = outs[0]
    return err, stuck, out, conds, (None if not stuck else None)


_symcount = [0]


def mk_operand(rep, v, tag):
    """returns (halmos object, subs list)"""
    if rep == "int":
        return BV(v), []
    if rep == "term":
        x = z3.BitVec(f"x{tag}", 256)
        return BV(x), [(x, z3.BitVecVal(v, 256))]
    if rep == "zext":  # narrow symbol zero-extended (value < 256)
        b = z3.BitVec(f"b{tag}", 8)
        return BV(z3.Concat(z3.BitVecVal(0, 248), b)), [(b, z3.BitVecVal(v, 8))]
    if rep == "cbool":
        return (TRUE if v else FALSE), []
    if rep == "sbool":
        p = z3.Bool(f"p{tag}")
        return HBool(p), [(p, z3.BoolVal(bool(v)))]
    raise ValueError(rep)


def eval_out(out, subs):
    if out is None:
        return None
    if isinstance(out, bytes):
        return int.from_bytes(out, "big")
    es = pathmodel.fold([out], subs)
    e = es[0]
    if z3.is_bv_value(e):
        return e.as_long()
    return ("nonconst", str(e)[:200])


def check_injected(name, reps, vals, res, tag="A"):
    opcode, arity, ref = PY[name]
    operands, subs = [], []
    for i, (r, v) in enumerate(zip(reps, vals)):
        o, s_ = mk_operand(r, v, i)
        operands.append(o)
        subs += s_
    res["counters"]["evaluations"] += 1
    res["counters"][f"inject_{name}"] += 1
    res["features"]["rep:" + "/".join(reps)] += 1
    if name == "SIGNEXTEND" and reps[0] not in ("int", "cbool"):
        res["counters"]["signextend_symbolic_index_skipped"] += 1
        return  # probed separately (known finding: symbolic byte index is not modelled)
    err, stuck, out, conds, crash = inject_run(opcode, operands)
    want = ref(*vals)
    wit = dict(op=name, reps=list(reps), operands=[hex(v) for v in vals], want=hex(want), part=tag)
    if crash:
        res["violations"].append(dict(what=f"{name}: internal exception / not total", key=f"{name}-crash-{crash.split(':')[0][:40]}", crash=crash, **wit))
        return
    if stuck or err is not None:
        res["violations"].append(dict(what=f"{name}: no result (error {err}, stuck={stuck})", key=f"{name}-err-{err}", **wit))
        return
    got = eval_out(out, subs)
    if got != want:
        res["violations"].append(dict(what=f"{name}: wrong result", key=f"{name}-wrong-{'/'.join(reps)}", got=hex(got) if isinstance(got, int) else got, **wit))
    if any(r in ("term", "zext", "sbool") for r in reps):
        res["counters"]["symbolic_results_evaluated"] += 1
    if any(r in ("cbool", "sbool") for r in reps):
        res["counters"]["bool_typed_operand_cases"] += 1


def value_domain(rep, grid):
    if rep in ("cbool", "sbool"):
        return [0, 1]
    if rep == "zext":
        return [v for v in grid if v < 256] or [0, 1, 255]
    return grid


def tasks_part_a(run, rng):
    """list of ('A', name, reps, [value tuples])"""
    tasks = []
    grid = BOUNDARY if run.thorough() else [0, 1, 2, 31, 32, 255, 256, 2**255 - 1, 2**255, 2**256 - 2, 2**256 - 1]
    reps_all = ["int", "term", "zext", "cbool", "sbool"]
    for name in OPS:
        opcode, arity, _ = PY[name]
        for reps in itertools.product(reps_all, repeat=arity):
            if arity == 3 and sum(r in ("zext", "cbool", "sbool") for r in reps) > 1 and rng.random() < 0.7:
                continue
            doms = [value_domain(r, grid) for r in reps]
            tuples = list(itertools.product(*doms))
            cap = 150 if arity < 3 else 120
            if not run.thorough():
                cap = 60 if arity < 3 else 40
            if len(tuples) > cap:
                tuples = rng.sample(tuples, cap)
            # EXP: keep batches tiny so a hang is attributed (promptness)
            step = 12 if name == "EXP" else 200
            for i in range(0, len(tuples), step):
                tasks.append(("A", name, reps, tuples[i : i + step]))
    return tasks


def tasks_grid8(run, rng):
    """8-bit grid embedded zero- and sign-extended; exhaustive in the thorough tier"""
    tasks = []

    def emb(v, signed):
        return v if not signed or v < 128 else (M - 255 + v)

    for name in OPS:
        opcode, arity, _ = PY[name]
        if arity == 3:
            vals = [0, 1, 2, 3, 127, 128, 129, 254, 255]
            tuples = [tuple(emb(v, sg) for v in t) for t in itertools.product(vals, repeat=3) for sg in (False, True)]
        elif arity == 2:
            rng8 = range(256) if run.thorough() else sorted(set(list(range(0, 256, 17)) + [1, 2, 7, 8, 31, 32, 127, 128, 129, 254, 255]))
            tuples = [(emb(a, sa), emb(b, sb)) for a in rng8 for b in rng8 for sa in (False, True) for sb in (False, True)]
        else:
            tuples = [(emb(a, sa),) for a in range(256) for sa in (False, True)]
        step = 40 if name == "EXP" else 4000
        for i in range(0, len(tuples), step):
            tasks.append(("G", name, None, tuples[i : i + step]))
    return tasks


# ---------------------------------------------------------------------------- part B
def producer(kind, v, idx, rng):
    """instructions leaving a value on the stack; returns (src tokens, calldata pins {index: value})"""
    if kind == "push":
        return [("push", v, 32)], {}
    if kind == "cd":
        return [4 + 32 * idx, "CALLDATALOAD"], {idx: v}
    # Bool-typed producers (value v in {0,1})
    op = rng.choice(BOOL_PRODUCERS)
    sym = kind == "symbool"
    c = rng.choice([5, 2**255, 7, M])
    if op == "ISZERO":
        x = 0 if v else c
        return (([4 + 32 * idx, "CALLDATALOAD"] if sym else [("push", x, 32)]) + ["ISZERO"]), ({idx: x} if sym else {})
    # pick (a, b) with a OP b == v  (a is the top operand)
    ref = PY[op][2]
    for _ in range(50):
        a, b = rng.choice(BOUNDARY), rng.choice(BOUNDARY)
        if ref(a, b) == v:
            break
    else:
        a, b = (1, 1) if (op == "EQ") == bool(v) else (1, 2)
        if ref(a, b) != v:
            a, b = b, a
        if ref(a, b) != v:
            a, b = (0, 0) if v else (0, 1)
    assert ref(a, b) == v, (op, a, b, v)
    if sym:
        return [("push", b, 32), 4 + 32 * idx, "CALLDATALOAD", op], {idx: a}
    return [("push", b, 32), ("push", a, 32), op], {}


def bool_combo(v, idx, rng, sym):
    """AND/OR/XOR of two Bool-typed values giving v"""
    op = rng.choice(["AND", "OR", "XOR"])
    ref = PY[op][2]
    pairs = [(a, b) for a in (0, 1) for b in (0, 1) if ref(a, b) == v]
    a, b = rng.choice(pairs)
    s1, p1 = producer("symbool" if sym else "conbool", b, idx, rng)
    s2, p2 = producer("conbool", a, idx, rng)
    return s1 + s2 + [op], {**p1, **p2}


def check_program(name, kinds, vals, rng, res):
    opcode, arity, ref = PY[name]
    src = []
    pins = {}
    for i in reversed(range(arity)):  # push last operand first
        k, v = kinds[i], vals[i]
        if k in ("combo", "symcombo"):
            s_, p_ = bool_combo(v, i, rng, k == "symcombo")
        else:
            s_, p_ = producer(k, v, i, rng)
        src += s_
        pins.update(p_)
    src += [name, 0, "MSTORE", 32, 0, "RETURN"]
    code = asm(src)
    res["counters"]["evaluations"] += 1
    res["counters"]["programs_B"] += 1
    res["features"]["producers:" + "/".join(kinds)] += 1
    cdv = [pins.get(i, 0) for i in range(3)]
    data = bytes(4) + b"".join(v.to_bytes(32, "big") for v in cdv)
    W = refevm.World()
    W.get(0x1000).code = code
    ev = refevm.EVM(W, origin=0x2000, step_budget=2000)
    ok, ret, kind = ev.call(0x1000, 0x2000, 0, data, transfer=False)
    wit = dict(op=name, producers=list(kinds), operands=[hex(v) for v in vals], code=code.hex(), calldata=data.hex(), part="B")
    if not ok:
        raise AssertionError(f"reference failed on a total program: {kind} {wit}")
    want = int.from_bytes(ret, "big")
    assert want == ref(*vals), (name, vals, want)
    if name == "SIGNEXTEND" and kinds[0] != "push":
        res["counters"]["signextend_symbolic_index_skipped"] += 1
        return
    r = symrun.run_symbolic({0x1000: code}, ncd=3)
    if r.crash:
        res["violations"].append(dict(what=f"{name}: internal exception escaped SEVM.run", key=f"{name}-B-crash", crash=r.crash[-500:], **wit))
        return
    pn = pathmodel.Pins()
    for i in range(3):
        pn.scalar(r.inputs[f"cd{i}"], cdv[i])
    pn.scalar(r.inputs["caller"], 0x2000)
    pn.scalar(r.inputs["origin"], 0x2000)
    pn.scalar(r.inputs["value"], 0)
    pn.array(r.balance, {})
    hits = []
    for p in r.paths:
        t = symrun.bytes_term(p.out)
        verdict, vals_ = pathmodel.admits(p.conds, [t] if t is not None else [], pn)
        if verdict == "sat":
            hits.append((p, vals_[0] if vals_ else None))
        elif verdict == "unknown":
            res["counters"]["oracle_timeouts"] += 1
            return
    if len(hits) != 1:
        res["violations"].append(dict(what=f"{name}: {len(hits)} paths admit the input (expected exactly 1)", key=f"{name}-B-paths", **wit))
        return
    p, got = hits[0]
    if p.stuck or p.error is not None:
        res["violations"].append(dict(what=f"{name}: no result (error {p.error}: {p.errmsg})", key=f"{name}-B-err-{p.error}", **wit))
        return
    if got != want:
        res["violations"].append(dict(what=f"{name}: wrong result with instruction-produced operands", key=f"{name}-B-wrong-{'/'.join(k for k in kinds)}",
                                      got=hex(got) if isinstance(got, int) else got, want=hex(want), **wit))
    if any(k not in ("push", "cd") for k in kinds):
        res["counters"]["bool_typed_stack_values_B"] += 1


def tasks_part_b(run, rng):
    tasks = []
    kinds_all = ["push", "cd", "conbool", "symbool", "combo", "symcombo"]
    grid = [0, 1, 2, 31, 32, 255, 256, 2**255 - 1, 2**255, 2**256 - 1]
    n = run.n(14, 120)
    for name in OPS:
        opcode, arity, _ = PY[name]
        cases = []
        for kinds in itertools.product(kinds_all, repeat=arity):
            if arity == 3 and rng.random() < 0.75:
                continue
            for _ in range(2 if arity < 3 else 1):
                vals = tuple(rng.choice([0, 1]) if k not in ("push", "cd") else rng.choice(grid) for k in kinds)
                if name == "EXP" and vals[1] > 2**20 and kinds[1] == "push" and kinds[0] == "push" and vals[0] > 1:
                    pass  # huge concrete exponent: still expected to be prompt
                cases.append((kinds, vals))
        rng.shuffle(cases)
        cases = cases[: max(n, 36 if arity == 2 else 6)]
        step = 6 if name == "EXP" else 40
        for i in range(0, len(cases), step):
            tasks.append(("B", name, None, cases[i : i + step]))
    return tasks


# ---------------------------------------------------------------------------- part C
SPECIAL = [0, 1, 2, 3, 8, 31, 32, 255, 256, 2**128, 2**255, 2**256 - 1]


def smt_obligation(name, shape, res):
    """shape: tuple per operand: 'x' symbolic word | 'p' symbolic Bool | int constant"""
    if name == "EXP" and shape[0] in ("x", "p") and isinstance(shape[1], int) and 2 <= shape[1] <= 16:
        # x ** k for a small constant k is unrolled into multiplications when k <= --smt-exp-by-const: judged under every setting
        for expc in EXP_BY_CONST:
            res["counters"]["exp_by_const_settings"] += 1
            _smt_obligation(name, shape, res, expc)
        return
    _smt_obligation(name, shape, res, 2)


def _smt_obligation(name, shape, res, expc):
    opcode, arity, ref = PY[name]
    operands, zs = [], []
    for i, sh in enumerate(shape):
        if sh == "x":
            v = z3.BitVec(f"x{i}", 256)
            operands.append(BV(v))
            zs.append(v)
        elif sh == "p":
            p = z3.Bool(f"p{i}")
            operands.append(HBool(p))
            zs.append(z3.If(p, z3.BitVecVal(1, 256), z3.BitVecVal(0, 256)))
        else:
            operands.append(BV(sh))
            zs.append(z3.BitVecVal(sh, 256))
    res["counters"]["evaluations"] += 1
    res["counters"]["smt_obligations"] += 1
    wit = dict(op=name, shape=[str(s_) for s_ in shape], part="C", smt_exp_by_const=expc)
    if name == "SIGNEXTEND" and shape[0] in ("x", "p"):
        res["counters"]["signextend_symbolic_index_skipped"] += 1
        return
    err, stuck, out, conds, crash = inject_run(opcode, operands, expc)
    if crash:
        res["violations"].append(dict(what=f"{name}: internal exception / not total", key=f"{name}-C-crash", crash=crash, **wit))
        return
    if stuck or err is not None:
        res["violations"].append(dict(what=f"{name}: no result for symbolic operands ({err})", key=f"{name}-C-err-{err}", **wit))
        return
    if isinstance(out, bytes):
        got = z3.BitVecVal(int.from_bytes(out, "big"), 256)
    else:
        got = pathmodel.exact_defs(out)
    if name == "EXP":
        if isinstance(shape[1], int) and shape[1] <= 16:
            spec = z3.BitVecVal(1, 256)
            for _ in range(shape[1]):
                spec = zs[0] * spec
        elif isinstance(shape[0], int) and isinstance(shape[1], int):
            spec = z3.BitVecVal(ref(shape[0], shape[1]), 256)
        else:
            res["counters"]["smt_not_judged_exp_abstraction"] += 1
            return
    else:
        spec = Z[name](*zs)
    # cheap refutation first: a handful of concrete valuations (non-linear 256-bit disequalities can take the solver very long even when a
    # tiny counterexample exists), and syntactic equality after simplification as a cheap proof
    syms = [z for z in zs if not z3.is_bv_value(z)]
    vars_ = sorted({str(v): v for z in syms for v in _free_vars(z)}.items())
    for trial in ([0, 1, 2, 3, 5, 2**255 + 1, 2**256 - 1, 0x1234567] if vars_ else []):
        subs = [(v, (z3.BitVecVal((trial + 7 * i) % 2**256, 256) if z3.is_bv(v) else z3.BoolVal(bool((trial + i) & 1)))) for i, (_, v) in enumerate(vars_)]
        g, w = z3.simplify(z3.substitute(got, *subs)), z3.simplify(z3.substitute(spec, *subs))
        if z3.is_bv_value(g) and z3.is_bv_value(w) and g.as_long() != w.as_long():
            res["violations"].append(dict(what=f"{name}: result term differs from the specification for some operand values",
                                          key=f"{name}-C-sat" + (f"-expc{expc}" if expc != 2 else ""), model=str(subs)[:400], term=str(got)[:300], **wit))
            return
    if z3.eq(z3.simplify(got), z3.simplify(spec)):
        res["counters"]["smt_discharged"] += 1
        res["counters"]["smt_discharged_syntactically"] += 1
        res["distinct"].append(f"{name}:{shape}" + (f":expc{expc}" if expc != 2 else ""))
        return
    s = z3.Solver()
    s.set(timeout=8000)
    s.add(got != spec)
    t0 = time.time()
    r = s.check()
    if r == z3.unsat:
        res["counters"]["smt_discharged"] += 1
        res["distinct"].append(f"{name}:{shape}" + (f":expc{expc}" if expc != 2 else ""))
    elif r == z3.sat:
        m = s.model()
        res["violations"].append(dict(what=f"{name}: result term differs from the specification for some operand values",
                                      key=f"{name}-C-sat" + (f"-expc{expc}" if expc != 2 else ""), model=str(m)[:400], term=str(got)[:300], **wit))
    else:
        res["counters"]["smt_timeouts"] += 1
        res["inconclusive_notes"] = res.get("inconclusive_notes", []) + [f"{name}:{shape}"]


def _free_vars(e):
    out, stack, seen = [], [e], set()
    while stack:
        t = stack.pop()
        if t.get_id() in seen:
            continue
        seen.add(t.get_id())
        if z3.is_const(t) and t.decl().kind() == z3.Z3_OP_UNINTERPRETED:
            out.append(t)
        stack.extend(t.children())
    return out


def tasks_part_c(run, rng):
    tasks = []
    for name in OPS:
        opcode, arity, _ = PY[name]
        shapes = set()
        for sh in itertools.product(["x", "p"], repeat=arity):
            shapes.add(sh)
        for pos in range(arity):
            for c in SPECIAL:
                base = ["x"] * arity
                base[pos] = c
                shapes.add(tuple(base))
                if arity == 3:
                    b2 = list(base)
                    b2[(pos + 1) % 3] = rng.choice(SPECIAL)
                    shapes.add(tuple(b2))
        shapes = sorted(shapes, key=str)
        for sh in shapes:
            tasks.append(("C", name, None, [sh]))
    return tasks


# ---------------------------------------------------------------------------- part D
# an instruction whose operand is the *result of an earlier instruction on the same symbols*: (x op1 y) op2 x and x op2 (x op1 y).
# Rewrites that recognise such shapes (xy / x = y, ...) must keep the corner cases (x == 0, overflow).  Operands are full words or
# narrow symbols zero-extended to a word (uint8 / address), so that products cannot overflow.
D_OP1 = ["MUL", "ADD", "SUB", "AND", "SHL"]
D_OP2 = ["DIV", "SDIV", "MOD", "SMOD", "SUB", "EQ", "LT"]
D_WIDTHS = [8, 160, 256, 128]


def composed_obligation(op1, op2, order, wa, wb, res):
    def mk(name, w):
        if w == 256:
            v = z3.BitVec(name, 256)
            return BV(v), v
        n = z3.BitVec(f"{name}{w}", w)
        t = z3.Concat(z3.BitVecVal(0, 256 - w), n)
        return BV(t), t
    a, za = mk("a", wa)
    b, zb = mk("b", wb)
    o1, o2 = PY[op1][0], PY[op2][0]
    # stack (top first): a, b
    if order == 0:   # (a op1 b) op2 a : DUP1 SWAP2 SWAP1 op1 op2  -> op1 pops (a, b) ; then op2 pops (a op1 b, a)
        code = bytes([0x80, 0x91, 0x90, o1, o2])
        spec = Z[op2](Z[op1](za, zb), za)
    else:            # a op2 (a op1 b) : DUP1 SWAP2 SWAP1 op1 SWAP1 op2
        code = bytes([0x80, 0x91, 0x90, o1, 0x90, o2])
        spec = Z[op2](za, Z[op1](za, zb))
    res["counters"]["evaluations"] += 1
    res["counters"]["composed_programs"] += 1
    wit = dict(op=f"{op2}({op1})", shape=[op1, op2, str(order), str(wa), str(wb)], part="D")
    err, stuck, out, conds, crash = inject_run(code, [a, b])
    if crash:
        res["violations"].append(dict(what=f"{op2} after {op1}: internal exception / not total", key=f"{op2}-{op1}-D-crash", crash=crash, **wit))
        return
    if stuck or err is not None:
        res["violations"].append(dict(what=f"{op2} after {op1}: no result for symbolic operands ({err})", key=f"{op2}-{op1}-D-err-{err}", **wit))
        return
    got = z3.BitVecVal(int.from_bytes(out, "big"), 256) if isinstance(out, bytes) else pathmodel.exact_defs(out)
    vars_ = sorted({str(v): v for z in (za, zb) for v in _free_vars(z)}.items())
    for trial in [0, 1, 2, 3, 5, 0x80, 0xFF, 2**127, 2**159 + 1, 2**255 + 1, 2**256 - 1, 0x1234567]:
        for flip in (0, 1):
            subs = []
            for i, (_, v) in enumerate(vars_):
                val = (trial if (i ^ flip) == 0 else (trial * 3 + 7)) % (1 << v.size())
                subs.append((v, z3.BitVecVal(val, v.size())))
            g, w = z3.simplify(z3.substitute(got, *subs)), z3.simplify(z3.substitute(spec, *subs))
            res["counters"]["composed_valuations"] += 1
            if z3.is_bv_value(g) and z3.is_bv_value(w) and g.as_long() != w.as_long():
                res["violations"].append(dict(what=f"{op2} applied to the result of {op1} on the same operand: result differs from the specification",
                                              key=f"{op2}-{op1}-D-wrong", model=str(subs)[:300], term=str(got)[:300], got=hex(g.as_long()), want=hex(w.as_long()), **wit))
                return
    if z3.eq(z3.simplify(got), z3.simplify(spec)):
        res["counters"]["smt_discharged"] += 1
        res["distinct"].append(f"D:{op1}:{op2}:{order}:{wa}:{wb}")
        return
    s = z3.Solver()
    s.set(timeout=3000)
    s.add(got != spec)
    r = s.check()
    if r == z3.unsat:
        res["counters"]["smt_discharged"] += 1
        res["distinct"].append(f"D:{op1}:{op2}:{order}:{wa}:{wb}")
    elif r == z3.sat:
        res["violations"].append(dict(what=f"{op2} applied to the result of {op1} on the same operand: result differs from the specification",
                                      key=f"{op2}-{op1}-D-wrong", model=str(s.model())[:300], term=str(got)[:300], **wit))
    else:
        res["counters"]["composed_judged_on_valuations_only"] += 1


def tasks_part_d(run, rng):
    combos = [(o1, o2, order, wa, wb) for o1 in D_OP1 for o2 in D_OP2 for order in (0, 1) for wa in D_WIDTHS for wb in D_WIDTHS]
    if not run.thorough():
        must = [c for c in combos if c[0] == "MUL" and c[1] in ("DIV", "SDIV", "MOD") and c[3] in (8, 160) and c[4] in (8, 256)]
        rest = [c for c in combos if c not in must]
        combos = must + rng.sample(rest, 150)
    return [("D", "COMPOSED", None, combos[i : i + 10]) for i in range(0, len(combos), 10)]


# ---------------------------------------------------------------------------- part M
# HalmosBitVec arithmetic methods called *without* an abstraction (the exact-term code path)
METHODS = {
    "MUL": lambda a, b: a.mul(b),
    "DIV": lambda a, b: a.div(b),
    "SDIV": lambda a, b: a.sdiv(b),
    "MOD": lambda a, b: a.mod(b),
    "SMOD": lambda a, b: a.smod(b),
    "ADDMOD": lambda a, b, n: a.addmod(b, n),
    "MULMOD": lambda a, b, n: a.mulmod(b, n),
}


def check_method(name, reps, vals, res):
    opcode, arity, ref = PY[name]
    operands, subs = [], []
    for i, (r, v) in enumerate(zip(reps, vals)):
        o, s_ = mk_operand(r, v, i)
        operands.append(o)
        subs += s_
    res["counters"]["evaluations"] += 1
    res["counters"]["method_calls_M"] += 1
    wit = dict(op=name, reps=list(reps), operands=[hex(v) for v in vals], part="M")
    try:
        r = METHODS[name](*operands)
    except Exception as exn:
        res["violations"].append(dict(what=f"{name}: method without abstraction raised {type(exn).__name__}", key=f"{name}-M-raise", exc=repr(exn)[:200], **wit))
        return
    got = r.value if r.is_concrete else eval_out(r.as_z3(), subs)
    want = ref(*vals)
    if got != want:
        res["violations"].append(dict(what=f"{name}: method without abstraction gives a wrong result", key=f"{name}-M-wrong",
                                      got=hex(got) if isinstance(got, int) else got, want=hex(want), **wit))


def tasks_part_m(run, rng):
    tasks = []
    grid = [0, 1, 2, 3, 7, 255, 256, 2**255 - 1, 2**255, 2**255 + 1, 2**256 - 2, 2**256 - 1]
    for name in METHODS:
        arity = PY[name][1]
        for reps in itertools.product(["int", "term"], repeat=arity):
            tuples = list(itertools.product(grid, repeat=arity))
            cap = run.n(40, 400)
            if len(tuples) > cap:
                tuples = rng.sample(tuples, cap)
            tasks.append(("M", name, reps, tuples))
    return tasks


# ---------------------------------------------------------------------------- probes
def probe_signextend_symbolic():
    """SIGNEXTEND with a symbolic byte index (known-finding probe): must produce a result"""
    x = z3.BitVec("k", 256)
    err, stuck, out, conds, crash = inject_run(0x0B, [BV(x), BV(0x80)])
    if crash or stuck or err is not None:
        return f"SIGNEXTEND with symbolic byte index gives no result ({crash or err})"
    got = eval_out(out, [(x, z3.BitVecVal(0, 256))])
    if got != PY["SIGNEXTEND"][2](0, 0x80):
        return f"SIGNEXTEND symbolic index wrong value {got}"
    return None


# ---------------------------------------------------------------------------- worker
def worker(task):
    part, name, reps, cases = task
    rng = random.Random(f"c06-{part}-{name}-{reps}-{len(cases)}-{cases[0] if cases else ''}")
    res = new_result()
    for case in cases:
        if part == "A":
            check_injected(name, reps, case, res)
            if any(r != "int" for r in reps):
                res["distinct"].append(f"A:{name}:{reps}:{case}")
        elif part == "G":
            arity = PY[name][1]
            check_injected(name, ("int",) * arity, case, res, tag="G")
            res["counters"]["grid8_cases"] += 1
            # concrete fast path must agree with the symbolic path on the same values
            if hash((name, case)) % 23 == 0:
                check_injected(name, ("term",) * arity, case, res, tag="G")
                res["distinct"].append(f"G:{name}:{case}")
        elif part == "B":
            kinds, vals = case
            check_program(name, kinds, vals, rng, res)
            res["distinct"].append(f"B:{name}:{kinds}:{vals}")
        elif part == "C":
            smt_obligation(name, case, res)
        elif part == "M":
            check_method(name, reps, case, res)
        elif part == "D":
            composed_obligation(*case, res)
    if part != "D" and cases and len(res["samples"]) == 0 and rng.random() < 0.05:
        res["samples"].append(dict(part=part, op=name, reps=reps, case=[hex(v) if isinstance(v, int) else str(v) for v in (cases[0] if part != "B" else cases[0][1])]))
    return res


def main():
    run = Run("C06", "exploration")
    _imports()
    run.rule = ("one-instruction SEVM.run with operands injected in representations {int,term,zext,cbool,sbool} over boundary and 8-bit grids (part A/G), "
                "instruction-produced operands vs reference EVM (part B), SMT validity of result terms vs independent spec (part C); "
                "non-trivial = distinct (op, representation/producers, operand tuple) with at least one non-int-backed operand, or a discharged SMT shape")
    run.assumptions = ["abstractions f_evm_bv* read with their exact meaning; f_evm_exp read as modular exponentiation",
                       "independent semantics in lib/bvspec.py and lib/refevm.py", "z3 for evaluation / validity"]
    rng = random.Random(run.seed)
    if run.replay:
        w = json.load(open(run.replay))["witness"]
        res = new_result()
        name = w["op"]
        vals = tuple(int(v, 16) for v in w.get("operands", []))
        if w.get("part") in ("A", "G"):
            check_injected(name, tuple(w["reps"]), vals, res, tag=w["part"])
        elif w.get("part") == "B":
            check_program(name, tuple(w["producers"]), vals, random.Random(0), res)
        elif w.get("part") == "C":
            smt_obligation(name, tuple(int(s_) if s_.isdigit() else s_ for s_ in w["shape"]), res)
        elif w.get("part") == "M":
            check_method(name, tuple(w["reps"]), vals, res)
        elif w.get("part") == "D":
            sh = w["shape"]
            composed_obligation(sh[0], sh[1], int(sh[2]), int(sh[3]), int(sh[4]), res)
        run.merge(res)
        run.count("evaluations", res["counters"]["evaluations"])
        run.finish()

    # dedicated probe (known finding): symbolic SIGNEXTEND index
    msg = probe_signextend_symbolic()
    run.count("probe_signextend_symbolic")
    if msg:
        run.known_finding("signextend-symbolic-index-not-modelled", msg)

    tasks = tasks_part_a(run, rng) + tasks_grid8(run, rng) + tasks_part_b(run, rng) + tasks_part_c(run, rng) + tasks_part_d(run, rng)
    rng.shuffle(tasks)
    # EXP batches first so that a hang is found early
    tasks.sort(key=lambda t: 0 if t[1] == "EXP" else 1)
    n = 0
    for item, status, value in pmap(worker, tasks, soft_timeout=60 if not run.thorough() else 240, hard_extra=20):
        n += 1
        if status == "ok":
            run.merge(value)
            for note in value.get("inconclusive_notes", []):
                run.extra.setdefault("smt_timeouts_shapes", []).append(note)
        elif status in ("timeout", "killed") and item[0] in ("C", "D"):
            # the SMT oracle did not finish: inconclusive for that shape, never a violation
            run.count("smt_timeouts")
            run.extra.setdefault("smt_timeouts_shapes", []).append(f"{item[1]}:{item[3][0]}")
        elif status in ("timeout", "killed"):
            part, name, reps, cases = item
            run.violation(f"{name}: evaluation not prompt (watchdog fired on a batch of {len(cases)} cases)",
                          dict(op=name, part=part, reps=reps, first_case=str(cases[0])[:300], status=status,
                               operands=[hex(v) for v in cases[0]] if part in ("A", "G") else None),
                          key=f"{name}-not-prompt")
            run.count("watchdog_fired")
        else:
            run.count("case_crash")
            print("harness crash:", value, flush=True)
            run.inconclusive.append("harness crash")
    run.require("symbolic_results_evaluated", 500)
    run.require("bool_typed_operand_cases", 200)
    run.require("bool_typed_stack_values_B", 100)
    run.require("smt_discharged", 100)
    run.require("grid8_cases", 10000)
    run.require("composed_programs", 100)
    run.finish()


if __name__ == "__main__":
    main()
