"""C10 — incomplete exploration is always reported.

Ground truth by construction: generated tests whose planted failure is reachable only after k loop iterations,
behind many sibling paths, or deep into a long instruction sequence are run with small --loop / --width / --depth;
the reference EVM confirms that the planted input fails.  Oracle: a *clean* PASS (no warning captured from the
'halmos' logger for that test, num_bounded_loops == 0) must mean that no admissible input fails.  Further:
loops with a concrete condition must never be cut (the failure behind 30 concrete iterations must be found with
--loop 1), a path stopped by an unsupported feature (top level or nested) must give a non-PASS status, the
calls made during invariant testing are subject to the same rule, and the warning must be emitted for every
affected test of every contract in one process."""

import json
import random

import report
from report import Run, new_result, run_pool


def _imports():
    global A, testgen, e2e, invgen, foundry
    import artifacts as A
    import e2e
    import foundry
    import invgen
    import testgen


U = ("uint", 256)


def loop_test(rng, idx):
    return testgen.gen_test(rng, idx, kinds=["loop_guard", "arr_loop"])


def concrete_loop_test(rng, idx):
    """30 iterations with a concrete counter, then a guard on the input: must be found with any --loop"""
    N = rng.choice([12, 30, 64])
    K = rng.getrandbits(32)
    body = [0, ":top", "DUP1", N, "EQ", "@done", "JUMPI", 1, "ADD", "@top", "JUMP", ":done", "POP"] + A.arg(0) + [K, "EQ", "@bad", "JUMPI", "STOP", ":bad"] + A.panic(1)
    t = testgen.GenTest(A.Fn(f"check_conc{idx}", [("x", U)], body), [[K]], True, "concrete_loop", "panic1", {"loop-concrete"})
    return t


def width_test(rng, idx):
    n = rng.randrange(3, 9)
    bad_arm = rng.randrange(n)
    body = []
    for i in range(n):
        body += A.arg(0) + [i + 1, "EQ", f"@a{i}", "JUMPI"]
    body += ["STOP"]
    for i in range(n):
        body += [f":a{i}"] + (A.panic(1) if i == bad_arm else [i, 0, "SSTORE", "STOP"])
    t = testgen.GenTest(A.Fn(f"check_width{idx}", [("x", U)], body), [[bad_arm + 1]], True, "width", "panic1", {"many-paths"})
    t.npaths = n + 1
    return t


def depth_test(rng, idx):
    n = rng.choice([40, 120, 300])
    # a short path that completes within the step limit (so that the test is not reported as revert-all) ...
    # (the step budget of --depth is shared by all paths of the test and halmos explores the fall-through side first,
    # so the short path is the fall-through one)
    body = A.arg(0) + ["@long", "JUMPI", "STOP", ":long"]
    # ... and a long one that carries the planted failure
    for _ in range(n):
        body += [1, "POP"]
    K = rng.getrandbits(16)
    K = K or 1
    body += A.arg(0) + [K, "EQ", "@bad", "JUMPI", "STOP", ":bad"] + A.panic(1)
    t = testgen.GenTest(A.Fn(f"check_depth{idx}", [("x", U)], body), [[K]], True, "depth", "panic1", {"long-prelude"})
    t.nsteps = 2 * n
    return t


def stuck_test(rng, idx, nested):
    K = rng.getrandbits(16)
    t = testgen.GenTest(None, [[K]], False, "stuck-nested" if nested else "stuck", "none", {"unsupported"})
    if nested:
        helper = A.Fn(f"helper{idx}", [("v", U)], A.arg(0) + [K, "EQ", "@s", "JUMPI", "STOP", ":s", bytes([0xEE])])
        t.helper = helper
        t.fn = A.Fn(f"check_stuckn{idx}", [("x", U)], A.call_cheat(A.TEST, helper.sig, [A.arg(0)]) + ["POP", "STOP"])
    else:
        t.fn = A.Fn(f"check_stuck{idx}", [("x", U)], A.arg(0) + [K, "EQ", "@s", "JUMPI", "STOP", ":s", bytes([0xEE])])
    return t


def warnings_for(out, t):
    return [w for w in out.warnings() if t.fn.sig in w or t.fn.name + "(" in w]


def case_regular(seed, idx, res):
    rng = random.Random(f"c10-{seed}-reg-{idx}")
    tests = []
    for j in range(3):
        k = rng.random()
        if k < 0.35:
            tests.append(loop_test(rng, j))
        elif k < 0.5:
            tests.append(concrete_loop_test(rng, j))
        elif k < 0.7:
            tests.append(width_test(rng, j))
        elif k < 0.85:
            tests.append(depth_test(rng, j))
        else:
            tests.append(stuck_test(rng, j, nested=rng.random() < 0.5))
    setup = A.Fn("setUp", [], ["STOP"])
    fns = [setup] + [t.fn for t in tests] + [t.helper for t in tests if hasattr(t, "helper")]
    spec = A.ContractSpec("T", fns)
    loop = rng.choice([1, 2, 3, 4])
    ov = dict(loop=loop, solver="yices")
    wkind = None
    if any(t.kind == "width" for t in tests) and rng.random() < 0.7:
        ov["width"] = rng.choice([1, 2, 5])
    if any(t.kind == "depth" for t in tests) and rng.random() < 0.7:
        ov["depth"] = rng.choice([30, 100, 250])
    ov["default_array_lengths"] = [0, 1, 2, 3]
    # the branching solver answers `unknown` with probability p (what its 1 ms timeout does on hard loop conditions):
    # a cut at a branch whose feasibility is unknown must be reported like any other
    import symrun

    p = rng.choice([0.0, 0.0, 0.5, 1.0])
    symrun.MON.unknown_p, symrun.MON.unknown_rng, symrun.MON.step_budget = p, random.Random(idx), 0
    res["features"][f"branching-unknown-p={p}"] += 1
    try:
        out = A.run(A.make_ctx(spec, funsigs=[t.fn.sig for t in tests], overrides=ov))
    finally:
        symrun.MON.unknown_p = 0.0
    res["counters"]["contracts"] += 1
    if out.exception or len(out.results) != len(tests):
        res["counters"]["run_failed"] += 1
        return
    for t, r in zip(tests, out.results):
        res["counters"]["evaluations"] += 1
        res["counters"]["tests"] += 1
        res["features"]["kind:" + t.kind] += 1
        res["features"][f"loop={loop}"] += 1
        ws = warnings_for(out, t)
        clean = r.exitcode == 0 and not ws and not (r.num_bounded_loops or 0)
        wit = dict(index=idx, mode="regular", test=t.fn.sig, kind=t.kind, config={k: str(v) for k, v in ov.items()}, exitcode=r.exitcode, warnings=ws[:3], bounded=r.num_bounded_loops, paths=r.num_paths)
        if t.kind in ("stuck", "stuck-nested"):
            res["counters"]["unsupported_feature_tests"] += 1
            if r.exitcode == 0:
                res["violations"].append(dict(what="a path stopped by an unsupported feature did not prevent PASS", key="stuck-pass:" + t.kind, **wit))
            continue
        # ground truth
        fails = any(A.replay(spec, t.fn, list(v), setup_fn=setup).fails({1}) for v in t.planted)  # default --panic-error-codes is 0x01
        if not fails:
            res["counters"]["generator_inconsistent"] += 1
            continue
        cut_possible = (t.min_loop > loop) or (t.kind == "width" and ov.get("width") and t.npaths > ov["width"]) or (t.kind == "depth" and ov.get("depth") and t.nsteps > ov["depth"])
        if cut_possible:
            res["counters"]["cut_events_possible"] += 1
            res["distinct"].append(f"reg:{idx}:{t.fn.sig}")
        if ws or (r.num_bounded_loops or 0):
            res["counters"]["warnings_captured"] += 1
        if clean:
            res["violations"].append(dict(what="clean PASS (no warning, no bound flag) although an admissible input fails: exploration was cut silently", key=f"silent-cut:{t.kind}", planted=t.planted[:1], **wit))
        if t.kind == "concrete_loop" and "width" not in ov and "depth" not in ov and r.exitcode != 1:
            res["violations"].append(dict(what="a loop with a concrete condition was cut (failure behind it not reported)", key="concrete-loop-cut", **wit))
    if idx % 19 == 0:
        res["samples"].append(dict(index=idx, mode="regular", tests=[(t.fn.sig, t.kind) for t in tests], config={k: str(v) for k, v in ov.items()}, verdicts=[r.exitcode for r in out.results], warnings=len(out.warnings())))


def case_invariant(seed, idx, res):
    rng = random.Random(f"c10-{seed}-inv-{idx}")
    c = invgen.make_invariant_case(rng, target_kind="loop", depth=rng.choice([1, 2]))
    loop = rng.choice([1, 2, 3])
    ov = dict(invariant_depth=c.depth, loop=loop)
    out = A.run(A.make_ctx(c.test, funsigs=[f.sig for f, _ in c.invs], overrides=ov, others=[c.target]))
    res["counters"]["contracts"] += 1
    if out.exception or len(out.results) != len(c.invs):
        res["counters"]["run_failed"] += 1
        return
    for (f, meta), r in zip(c.invs, out.results):
        res["counters"]["evaluations"] += 1
        res["counters"]["invariant_tests"] += 1
        seq, n = invgen.brute_force(c, f, c.depth)
        ws = out.warnings()
        loopwarn = [w for w in ws if "loop unrolling bound" in w or "incomplete" in w]
        wit = dict(index=idx, mode="invariant", test=f.sig, depth=c.depth, loop=loop, bound=meta.get("bound"), exitcode=r.exitcode, warnings=ws[:3], bounded=r.num_bounded_loops)
        if seq is not None:
            res["distinct"].append(f"inv:{idx}:{f.sig}")
            res["counters"]["invariant_cut_events_possible"] += 1
            if r.exitcode == 0 and not loopwarn and not (r.num_bounded_loops or 0):
                res["violations"].append(dict(what="invariant test: clean PASS although a call sequence within the depth breaks the invariant (loop bound hit inside a target call was not reported)",
                                              key="silent-cut:invariant", sequence=[(x[0].sig, x[1]) for x in seq], **wit))
        if loopwarn:
            res["counters"]["warnings_captured"] += 1


def case_two_contracts(seed, idx, res):
    """the same function signature cut by --depth in two contracts run in one process: both must be flagged"""
    rng = random.Random(f"c10-{seed}-two-{idx}")
    outs = []
    for name in ("A", "B"):
        t = depth_test(rng, 0)
        t.fn.name = "check_depth0"
        setup = A.Fn("setUp", [], ["STOP"])
        spec = A.ContractSpec(name, [setup, t.fn], filename=f"{name}.sol")
        ov = dict(depth=20)
        out = A.run(A.make_ctx(spec, funsigs=[t.fn.sig], overrides=ov))
        outs.append((name, t, out))
    res["counters"]["evaluations"] += 1
    res["counters"]["two_contract_runs"] += 1
    for name, t, out in outs:
        r = out.results[0] if out.results else None
        if r is None:
            continue
        ws = [w for w in out.warnings() if "--depth" in w]
        if r.exitcode == 0 and not ws:
            res["violations"].append(dict(what="the --depth warning was emitted for the first contract only: the same function in a second contract of the same process got a clean PASS",
                                          key="depth-warning-once-per-process", contract=name, index=idx, exitcode=r.exitcode, warnings=out.warnings()[:3]))
    res["distinct"].append(f"two:{idx}")


def case_setup_loop(seed, idx, res):
    """the cut happens inside the setUp transaction: setUpSymbolic(n) loops n times (symbolic trip count), requires at least L iterations and
    stores n; check_small() asserts stored <= L.  With --loop L only n == L survives setUp, so a PASS of check_small() is only sound if the
    loop bound hit in setUp is reported (n = L + 1 breaks the test)."""
    rng = random.Random(f"c10-{seed}-setup-{idx}")
    L = rng.choice([1, 2, 3])
    n0 = A.arg(0)
    loop = n0 + [0, ":top", "DUP2", "DUP2", "LT", "ISZERO", "@done", "JUMPI", 1, "ADD", "@top", "JUMP", ":done"]  # stack: n i   (i counts up to n)
    body = loop + ["DUP1", L, "GT", "@short", "JUMPI", "POP", 0, "SSTORE", "STOP", ":short", 0, 0, "REVERT"]     # require(i >= L); stored = n
    setup = A.Fn("setUpSymbolic", [("n", U)], body)
    test = A.Fn("check_small", [], [0, "SLOAD", L, "LT", "@bad", "JUMPI", "STOP", ":bad"] + A.panic(1))  # fails iff stored > L
    spec = A.ContractSpec(f"S{idx}", [setup, test], filename=f"S{idx}.sol")
    out = A.run(A.make_ctx(spec, funsigs=[test.sig], overrides=dict(loop=L)))
    res["counters"]["evaluations"] += 1
    res["counters"]["setup_loop_cases"] += 1
    if out.exception or not out.results:
        res["counters"]["setup_loop_no_result"] += 1
        return
    r = out.results[0]
    ws = out.warnings()
    reported = [w for w in ws if "loop unrolling bound" in w or "incomplete" in w or "not been fully explored" in w]
    res["distinct"].append(f"setup-loop:{idx}")
    res["counters"]["cut_events_possible"] += 1
    if reported:
        res["counters"]["warnings_captured"] += 1
    if r.exitcode == 0 and not reported:
        res["violations"].append(dict(what="clean PASS although the loop bound cut the exploration of setUp (a larger trip count breaks the test)", key="silent-cut:setup-loop",
                                      index=idx, mode="setup-loop", loop=L, exitcode=r.exitcode, warnings=ws[:3]))


def case_width_frontier(seed, idx, res):
    """--width stops the first invariant test in the middle of computing a frontier; the frontier is cached per contract.  A later invariant
    test (fewer paths per state, so it never reaches the width itself) must not get a clean PASS over the partially computed frontier."""
    import invgen

    rng = random.Random(f"c10-{seed}-width-{idx}")
    nf = rng.choice([4, 5, 6])
    fns = [A.Fn(f"f{i}", [], [i, 0, "SSTORE", "STOP"]) for i in range(1, nf + 1)] + [A.Fn("get", [], [0, "SLOAD", 0, "MSTORE", 32, 0, "RETURN"], mutability="view", outputs=[U])]
    target = A.ContractSpec("W", fns, filename="W.sol")
    init = target.creation()
    st = []
    padded = init + bytes((-len(init)) % 32)
    for i in range(0, len(padded), 32):
        st += [("push", int.from_bytes(padded[i : i + 32], "big"), 32), 0x400 + i, "MSTORE"]
    setup = A.Fn("setUp", [], st + [len(init), 0x400, 0, "CREATE", 0, "SSTORE", "STOP"])
    view = A.call_raw(invgen.TARGET0, fns[-1].selector, ret=0x500) + ["POP", 0x500, "MLOAD"]
    # invariant_a forks into two passing paths per state (a fresh symbol is branched on); invariant_z has one path per state and is broken by the last function only
    inv_a = A.Fn("invariant_a", [], A.svm_create_uint256("b") + [1, "AND", "@odd", "JUMPI"] + view + ["POP", "STOP", ":odd"] + view + ["POP", "STOP"])
    inv_z = A.Fn("invariant_z", [], view + [nf, "EQ", "@bad", "JUMPI", "STOP", ":bad"] + A.panic(1))
    spec = A.ContractSpec(f"WT{idx}", [setup, inv_a, inv_z], filename=f"WT{idx}.sol")
    width = rng.choice([4, 5])
    out = A.run(A.make_ctx(spec, funsigs=[inv_a.sig, inv_z.sig], overrides=dict(width=width, invariant_depth=1), others=[target]))
    res["counters"]["evaluations"] += 1
    res["counters"]["width_frontier_cases"] += 1
    if out.exception or len(out.results) != 2:
        res["counters"]["width_frontier_no_result"] += 1
        return
    ws = out.warnings()
    rz = out.results[1]
    mine = [w for w in ws if ("invariant_z" in w and ("--width" in w or "incomplete" in w)) or "partially computed" in w]
    res["distinct"].append(f"width-frontier:{idx}")
    res["counters"]["cut_events_possible"] += 1
    if rz.exitcode == 0 and not mine:
        res["violations"].append(dict(what="clean PASS of an invariant test that ran over a frontier left partially computed by the --width stop of an earlier test", key="silent-cut:width-partial-frontier",
                                      index=idx, mode="width-frontier", width=width, functions=nf, verdicts=[r.exitcode for r in out.results], paths=[r.num_paths for r in out.results], warnings=ws[:4]))


def case_invariant_own_loop(seed, idx, res):
    """the loop that is cut is in the invariant function itself and depends on the target's state; one sevm runs the invariant over all
    frontier states, and the state checked last does not cut the loop: the bound hit on an earlier state must still be reported"""
    import invgen

    rng = random.Random(f"c10-{seed}-invloop-{idx}")
    L = rng.choice([1, 2, 3])
    fns = [A.Fn("set", [("x", U)], A.arg(0) + [0, "SSTORE", "STOP"]), A.Fn("zclear", [], [0, 0, "SSTORE", "STOP"]),
           A.Fn("n", [], [0, "SLOAD", 0, "MSTORE", 32, 0, "RETURN"], mutability="view", outputs=[U])]
    if idx % 2:
        fns[0], fns[1] = fns[1], fns[0]  # which state is visited last depends on the order of the target functions
    target = A.ContractSpec("N", fns, filename="N.sol")
    init = target.creation()
    st = []
    padded = init + bytes((-len(init)) % 32)
    for i in range(0, len(padded), 32):
        st += [("push", int.from_bytes(padded[i : i + 32], "big"), 32), 0x400 + i, "MSTORE"]
    setup = A.Fn("setUp", [], st + [len(init), 0x400, 0, "CREATE", 0, "SSTORE", "STOP"])
    view = A.call_raw(invgen.TARGET0, [f for f in fns if f.name == "n"][0].selector, ret=0x500) + ["POP", 0x500, "MLOAD"]
    # k = target.n(); for (i = 0; i < k; i++); fails iff the loop ran exactly L + 1 times
    inv = A.Fn("invariant_loop", [], view + [0, ":top", "DUP2", "DUP2", "LT", "ISZERO", "@done", "JUMPI", 1, "ADD", "@top", "JUMP", ":done", L + 1, "EQ", "@bad", "JUMPI", "STOP", ":bad"] + A.panic(1))
    spec = A.ContractSpec(f"IL{idx}", [setup, inv], filename=f"IL{idx}.sol")
    out = A.run(A.make_ctx(spec, funsigs=[inv.sig], overrides=dict(loop=L, invariant_depth=1), others=[target]))
    res["counters"]["evaluations"] += 1
    res["counters"]["invariant_own_loop_cases"] += 1
    if out.exception or not out.results:
        res["counters"]["invariant_own_loop_no_result"] += 1
        return
    r = out.results[0]
    ws = out.warnings()
    reported = [w for w in ws if "loop unrolling bound" in w or "incomplete" in w or "not been fully explored" in w] or (r.num_bounded_loops or 0)
    res["distinct"].append(f"inv-own-loop:{idx}")
    res["counters"]["invariant_cut_events_possible"] += 1
    if reported:
        res["counters"]["warnings_captured"] += 1
    if r.exitcode == 0 and not reported:
        res["violations"].append(dict(what="invariant test: clean PASS although the loop bound cut the invariant function on an earlier frontier state (set(L+1) breaks it)", key="silent-cut:invariant-own-loop",
                                      index=idx, mode="inv-own-loop", loop=L, exitcode=r.exitcode, warnings=ws[:3], bounded=r.num_bounded_loops))


def case_setup_stuck(seed, idx, res):
    """setUp() gets stuck (unsupported opcode) inside a nested call, or at top level: the state it has built so far is not the state after
    setUp.  A test that only passes on the truncated state must not be reported as a clean PASS."""
    rng = random.Random(f"c10-{seed}-setupstuck-{idx}")
    nested = idx % 2 == 0
    helper = A.Fn("helper", [], [bytes([0xEE])])
    if nested:
        body = A.call_cheat(A.TEST, helper.sig, []) + ["POP", 5, 1, "SSTORE", "STOP"]
    else:
        body = [bytes([0xEE]), 5, 1, "SSTORE", "STOP"]
    setup = A.Fn("setUp", [], body)
    test = A.Fn("check_slot", [], [1, "SLOAD", 5, "EQ", "@bad", "JUMPI", "STOP", ":bad"] + A.panic(1))  # fails on the real post-setUp state
    spec = A.ContractSpec(f"K{idx}", [setup, test, helper], filename=f"K{idx}.sol")
    out = A.run(A.make_ctx(spec, funsigs=[test.sig]))
    res["counters"]["evaluations"] += 1
    res["counters"]["setup_stuck_cases"] += 1
    res["counters"]["unsupported_feature_tests"] += 1
    ws = out.warnings()
    clean_pass = bool(out.results) and out.results[0].exitcode == 0 and not any("nsupported" in w or "internal" in w.lower() or "setUp" in w for w in ws)
    res["distinct"].append(f"setup-stuck:{idx}")
    if clean_pass:
        res["violations"].append(dict(what="clean PASS although setUp() got stuck on an unsupported instruction: the test ran on a truncated setup state without any report",
                                      key="silent-cut:setup-stuck" + ("-nested" if nested else ""), index=idx, mode="setup-stuck", nested=nested, warnings=ws[:3]))


def case_invariant_target_stuck(seed, idx, res):
    """a target call of an invariant test stops on an unsupported opcode — in the target function's own frame or in a nested call, before
    or after it has written the state that breaks the invariant: the post-state is lost, so the run must say that it is incomplete"""
    import invgen

    rng = random.Random(f"c10-{seed}-invstuck-{idx}")
    nested = idx % 2 == 1
    bad_op = rng.choice([0xFF, 0xFF, 0x49, 0x4A])  # selfdestruct / blobhash / blobbasefee: not supported
    stuck_body = [7, 0, "SSTORE"] + ([0, bytes([0xFF])] if bad_op == 0xFF else ([0, bytes([0x49]), "POP"] if bad_op == 0x49 else [bytes([0x4A]), "POP"])) + ["STOP"]
    fns = [A.Fn("poke", [], stuck_body), A.Fn("n", [], [0, "SLOAD", 0, "MSTORE", 32, 0, "RETURN"], mutability="view", outputs=[U])]
    if nested:
        # relay() calls this.poke()
        fns.append(A.Fn("relay", [], [("push", int.from_bytes(fns[0].selector, "big") << 224, 32), 0x300, "MSTORE", 0, 0, 4, 0x300, 0, "ADDRESS", 0xFFFF, "CALL", "POP", "STOP"]))
    target = A.ContractSpec("K", fns, filename="K.sol")
    init = target.creation()
    st = []
    padded = init + bytes((-len(init)) % 32)
    for i in range(0, len(padded), 32):
        st += [("push", int.from_bytes(padded[i : i + 32], "big"), 32), 0x400 + i, "MSTORE"]
    setup = A.Fn("setUp", [], st + [len(init), 0x400, 0, "CREATE", 0, "SSTORE", "STOP"])
    view = A.call_raw(invgen.TARGET0, [f for f in fns if f.name == "n"][0].selector, ret=0x500) + ["POP", 0x500, "MLOAD"]
    inv = A.Fn("invariant_n", [], view + [7, "EQ", "@bad", "JUMPI", "STOP", ":bad"] + A.panic(1))
    spec = A.ContractSpec(f"IS{idx}", [setup, inv], filename=f"IS{idx}.sol")
    out = A.run(A.make_ctx(spec, funsigs=[inv.sig], overrides=dict(invariant_depth=rng.choice([1, 2])), others=[target]))
    res["counters"]["evaluations"] += 1
    res["counters"]["invariant_target_stuck_cases"] += 1
    if out.exception or not out.results:
        res["counters"]["invariant_target_stuck_no_result"] += 1
        return
    r = out.results[0]
    ws = out.all_logs() if hasattr(out, "all_logs") else [m for _, m in out.logs]
    reported = [w for w in ws if "nsupported" in w or "incomplete" in w or "not been fully explored" in w or "Encountered" in w or "stuck" in w.lower()]
    res["distinct"].append(f"inv-target-stuck:{idx}")
    res["counters"]["invariant_cut_events_possible"] += 1
    res["counters"]["unsupported_feature_tests"] += 1
    if reported:
        res["counters"]["warnings_captured"] += 1
    if r.exitcode == 0 and not reported:
        res["violations"].append(dict(what="invariant test: clean PASS with no warning although a target call stopped on an unsupported opcode (its post-state was dropped silently)",
                                      key="silent-cut:invariant-target-stuck" + ("-nested" if nested else ""), index=idx, mode="inv-target-stuck", nested=nested, exitcode=r.exitcode, logs=ws[:4]))


def worker(task):
    _imports()
    kind, lo, hi, seed = task
    res = new_result()
    for idx in range(lo, hi):
        if kind == "reg":
            case_regular(seed, idx, res)
        elif kind == "inv":
            case_invariant(seed, idx, res)
        elif kind == "setup":
            case_setup_loop(seed, idx, res)
        elif kind == "setupstuck":
            case_setup_stuck(seed, idx, res)
        elif kind == "widthfrontier":
            case_width_frontier(seed, idx, res)
        elif kind == "invloop":
            case_invariant_own_loop(seed, idx, res)
        elif kind == "invstuck":
            case_invariant_target_stuck(seed, idx, res)
        else:
            case_two_contracts(seed, idx, res)
    return res


def main():
    run = Run("C10", "exploration")
    _imports()
    run.rule = ("generated tests with planted failures behind symbolic-trip-count loops, concrete loops, many sibling paths, long preludes and unsupported opcodes (top level / nested), run with --loop in 1..4, "
                "--width in {1,2,5}, --depth in {30,100,250}; invariant tests over a target with a symbolic-trip-count loop; two contracts with the same cut function in one process; "
                "non-trivial = distinct test for which the configured bound can actually cut the exploration")
    run.assumptions = ["ground truth from the reference EVM", "a warning captured from the 'halmos' logger that names the test, or num_bounded_loops > 0, counts as reported"]
    if run.replay:
        w = json.load(open(run.replay))["witness"]
        res = new_result()
        {"regular": case_regular, "invariant": case_invariant, "setup-loop": case_setup_loop, "setup-stuck": case_setup_stuck, "width-frontier": case_width_frontier, "inv-own-loop": case_invariant_own_loop, "inv-target-stuck": case_invariant_target_stuck}.get(w.get("mode"), case_two_contracts)(run.seed, w["index"], res)
        run.merge(res)
        run.finish()
    tasks = []
    n = run.n(90, 2500)
    tasks += [("reg", lo, min(n, lo + 3), run.seed) for lo in range(0, n, 3)]
    m = run.n(24, 600)
    tasks += [("inv", lo, min(m, lo + 2), run.seed) for lo in range(0, m, 2)]
    tasks += [("two", i, i + 1, run.seed) for i in range(run.n(4, 40))]
    tasks += [("setup", i, i + 2, run.seed) for i in range(0, run.n(8, 100), 2)]
    tasks += [("setupstuck", i, i + 2, run.seed) for i in range(0, run.n(4, 20), 2)]
    tasks += [("widthfrontier", i, i + 2, run.seed) for i in range(0, run.n(4, 40), 2)]
    tasks += [("invloop", i, i + 2, run.seed) for i in range(0, run.n(6, 60), 2)]
    tasks += [("invstuck", i, i + 2, run.seed) for i in range(0, run.n(6, 40), 2)]
    run_pool(run, worker, tasks, soft_timeout=900)
    run.require("tests", 150)
    run.require("cut_events_possible", 30)
    run.require("warnings_captured", 20)
    run.require("invariant_cut_events_possible", 5)
    run.require("unsupported_feature_tests", 10)
    run.require("setup_loop_cases", 6)
    run.finish()


if __name__ == "__main__":
    main()
