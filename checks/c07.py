"""C07 — byte sequences behave as a flat zero-extended byte array.

Reference-model monitor: every operation applied to a halmos ByteVec is mirrored on a flat list
of cells (concrete byte | (term, byte index)).  After every operation
  (i)  the chunk invariant is asserted (icontract class invariant on ByteVec when the wheel is
       available, and always by an explicit call of the same invariant function),
  (ii) len() equals the model's,
  (iii) every read API on a window around the touched offsets equals the model, decided under
       several random valuations of all symbols (plus all-zero / all-ones valuations),
  (iv) copies taken earlier (copy(), State.__deepcopy__, slices) are re-read against their own
       models after later writes to either side.
Workload: exhaustive operation sequences over a boundary grid (length 2 quick, 3 thorough),
random long histories whose offsets are drawn from the *current chunk boundaries* +-1, memory
operations through State.mslice / set_mslice."""

import itertools
import json
import random

import z3

import report
from report import Run, new_result, run_pool

INV = {"evals": 0, "icontract_evals": 0}


class InvariantBroken(Exception):
    pass


def _imports():
    global ByteVec, Chunk, ConcreteChunk, SymbolicChunk, BV, State, Contract
    from halmos.contract import Contract
    from halmos.bitvec import HalmosBitVec as BV
    from halmos.bytevec import ByteVec, Chunk, ConcreteChunk, SymbolicChunk
    from halmos.sevm import State


def chunks_well_formed(self):
    """class invariant: chunks contiguous from 0, none empty, lengths sum to length"""
    INV["evals"] += 1
    pos = 0
    for start, chunk in self.chunks.items():
        if len(chunk) == 0:
            return False
        if start != pos:
            return False
        pos += len(chunk)
    return pos == self.length


def counted_invariant(self):
    INV["icontract_evals"] += 1
    return chunks_well_formed(self)


def result_well_formed(result):
    INV["icontract_evals"] += 1
    return chunks_well_formed(result)


def _broken(self):
    return InvariantBroken(f"chunk invariant broken after a mutator: {list(self.chunks.items())!r} length={self.length}")


def _broken_result(result):
    return InvariantBroken(f"chunk invariant broken in a returned ByteVec: {list(result.chunks.items())!r} length={result.length}")


def install_icontract():
    """icontract postconditions on the real mutators / constructors of ByteVec (a class invariant via
    icontract.invariant would also fire on every read accessor: 90M evaluations per quick run)"""
    try:
        import icontract
    except Exception:
        return False
    if getattr(ByteVec, "_c07_inv", False):
        return True
    for name in ("append", "set_byte", "set_slice", "set_word", "__setitem__"):
        setattr(ByteVec, name, icontract.ensure(counted_invariant, error=_broken)(getattr(ByteVec, name)))
    for name in ("slice", "copy", "concretize"):
        setattr(ByteVec, name, icontract.ensure(result_well_formed, error=_broken_result)(getattr(ByteVec, name)))
    ByteVec._c07_inv = True
    return True


# ---------------------------------------------------------------------------- flat model
class Flat:
    def __init__(self, cells=None):
        self.cells = list(cells or [])

    def copy(self):
        return Flat(self.cells)

    def __len__(self):
        return len(self.cells)

    def write(self, off, cells):
        if not cells:
            return
        if off > len(self.cells):
            self.cells.extend([0] * (off - len(self.cells)))
        end = off + len(cells)
        if end > len(self.cells):
            self.cells.extend([0] * (end - len(self.cells)))
        self.cells[off:end] = cells

    def append(self, cells):
        self.cells.extend(cells)

    def read(self, off, n):
        out = self.cells[off : off + n] if off < len(self.cells) else []
        return list(out) + [0] * (n - len(out))


class Valuations:
    """random valuations of every symbol seen; evaluation of cells and halmos results"""

    def __init__(self, rng, k=2):
        self.rng = rng
        self.k = k
        self.syms = {}  # name -> symbol
        self.vals = []  # list of dict sym -> int
        self.cache = {}

    def register(self, sym):
        n = sym.decl().name()
        if n in self.syms:
            return
        self.syms[n] = sym
        w = sym.size() if z3.is_bv(sym) else 1
        for i in range(self.k + 2):
            if len(self.vals) <= i:
                self.vals.append({})
            if i == 0:
                v = 0
            elif i == 1:
                v = (1 << w) - 1
            else:
                v = self.rng.getrandbits(w)
            self.vals[i][n] = v

    def nvals(self):
        return max(1, len(self.vals))

    def subs(self, i):
        if not self.vals:
            return []
        out = []
        for n, s in self.syms.items():
            v = self.vals[i][n]
            out.append((s, z3.BitVecVal(v, s.size()) if z3.is_bv(s) else z3.BoolVal(bool(v))))
        return out

    def eval_term(self, t, i):
        key = (t.get_id(), i)
        if key in self.cache:
            return self.cache[key][1]
        e = z3.simplify(z3.substitute(t, *self.subs(i))) if self.syms else z3.simplify(t)
        if not z3.is_bv_value(e):
            raise AssertionError(f"term did not evaluate: {e}")
        v = e.as_long().to_bytes(e.size() // 8, "big")
        self.cache[key] = (t, v)  # keep t alive so ids are not recycled
        return v

    def model_bytes(self, cells, i):
        out = bytearray()
        for c in cells:
            if isinstance(c, int):
                out.append(c)
            else:
                t, idx = c
                out.append(self.eval_term(t, i)[idx])
        return bytes(out)

    def halmos_bytes(self, v, i, nbytes=None):
        """int | bytes | BitVecRef | BV | ByteVec | Chunk -> bytes under valuation i"""
        if isinstance(v, ByteVec):
            v = v.unwrap()
        elif isinstance(v, Chunk):
            v = v.unwrap()
        if isinstance(v, BV):
            v = v.value if v.is_concrete else v.as_z3()
            if isinstance(v, int):
                return v.to_bytes(nbytes or 32, "big")
        if isinstance(v, bool):
            raise AssertionError("bool read")
        if isinstance(v, int):
            return v.to_bytes(nbytes or 1, "big")
        if isinstance(v, (bytes, bytearray)):
            return bytes(v)
        if z3.is_bv(v):
            e = z3.simplify(z3.substitute(v, *self.subs(i))) if self.syms else z3.simplify(v)
            if not z3.is_bv_value(e):
                raise AssertionError(f"read did not evaluate: {e}")
            return e.as_long().to_bytes(e.size() // 8, "big")
        raise AssertionError(f"unexpected read type {type(v)}")


# ---------------------------------------------------------------------------- values
class Ctx:
    def __init__(self, rng):
        self.rng = rng
        self.vals = Valuations(rng)
        self.nsym = 0

    def sym(self, nbytes):
        self.nsym += 1
        s = z3.BitVec(f"m{self.nsym}_{nbytes}", 8 * nbytes)
        self.vals.register(s)
        return s


def cells_of_term(t):
    return [(t, i) for i in range(t.size() // 8)]


def mk_value(ctx, kind, n, vec=None, model=None, other=None):
    """returns (halmos value, cells) of byte length n"""
    rng = ctx.rng
    if n == 0 and kind not in ("self", "mixedvec"):
        kind = "bytes"  # zero-width terms do not exist
    if kind == "bytes":
        b = bytes(rng.randrange(256) for _ in range(n))
        return b, list(b)
    if kind == "zeros":
        return bytes(n), [0] * n
    if kind == "sym":
        s = ctx.sym(n)
        return s, cells_of_term(s)
    if kind == "expr":  # non-symbol term
        s1, s2 = ctx.sym(n), ctx.sym(n)
        t = z3.simplify(s1 ^ ~s2) if rng.random() < 0.5 else z3.simplify(s1 + s2)
        return t, cells_of_term(t)
    if kind == "cchunk":  # ConcreteChunk window into larger data
        pre, post = rng.randrange(0, 3), rng.randrange(0, 3)
        b = bytes(rng.randrange(256) for _ in range(pre + n + post))
        return ConcreteChunk(b, pre, n), list(b[pre : pre + n])
    if kind == "schunk":
        pre, post = rng.randrange(0, 3), rng.randrange(0, 3)
        s = ctx.sym(pre + n + post)
        return SymbolicChunk(s, pre, n), cells_of_term(s)[pre : pre + n]
    if kind == "self":  # slice of the vector itself (overlapping self copy, as MCOPY does)
        src = rng.choice([0, 1, 31, 32, 33]) if len(model) == 0 else rng.randrange(0, len(model) + 2)
        return vec.slice(src, src + n), model.read(src, n)
    if kind == "mixedvec":  # a fresh multi-chunk ByteVec: bytes + symbol + bytes
        bv = ByteVec()
        cells = []
        left = n
        parts = []
        while left > 0:
            k = rng.randrange(1, left + 1)
            parts.append(k)
            left -= k
        for j, k in enumerate(parts):
            v, c = mk_value(ctx, "sym" if (j + rng.randrange(2)) % 2 else "bytes", k)
            bv.append(v)
            cells += c
        return bv, cells
    if kind == "bv":  # HalmosBitVec (concrete or symbolic)
        if rng.random() < 0.5:
            x = rng.getrandbits(8 * n)
            return BV(x, size=8 * n), list(x.to_bytes(n, "big"))
        s = ctx.sym(n)
        return BV(s), cells_of_term(s)
    raise ValueError(kind)


SLICE_KINDS = ["bytes", "sym", "expr", "cchunk", "schunk", "self", "mixedvec"]


# ---------------------------------------------------------------------------- checking
class Tracked:
    def __init__(self, vec, model, name):
        self.vec = vec
        self.model = model
        self.name = name


class Mismatch(Exception):
    def __init__(self, what, **kw):
        super().__init__(what)
        self.what = what
        self.kw = kw


def compare(ctx, got, cells, what, nbytes=None, **kw):
    vals = ctx.vals
    for i in range(vals.nvals()):
        g = vals.halmos_bytes(got, i, nbytes=nbytes if nbytes else (len(cells) or None))
        m = vals.model_bytes(cells, i)
        if g != m:
            raise Mismatch(what, got=g.hex(), want=m.hex(), valuation=i, **kw)


def check_reads(ctx, tr, touched, res, full=True):
    v, m = tr.vec, tr.model
    if not chunks_well_formed(v):
        raise Mismatch("chunk invariant broken", chunks=repr(list(v.chunks.items()))[:400], length=v.length)
    if len(v) != len(m):
        raise Mismatch("len", got=len(v), want=len(m))
    n = len(m)
    offs = set()
    for t in touched:
        offs |= {t - 1, t, t + 1}
    offs |= {0, n - 1, n, n + 1}
    offs = sorted(o for o in offs if o >= 0)
    if len(offs) > 9:
        offs = sorted(ctx.rng.sample(offs, 9))
    for o in offs:
        res["counters"]["reads"] += 1
        compare(ctx, v.get_byte(o), m.read(o, 1), "get_byte", off=o, nbytes=1)
        compare(ctx, v[o], m.read(o, 1), "__getitem__(int)", off=o, nbytes=1)
    woffs = sorted({max(0, t - d) for t in touched for d in (0, 31, 32)} | {max(0, n - 31), n})
    for o in (woffs if len(woffs) <= 4 else ctx.rng.sample(woffs, 4)):
        res["counters"]["reads"] += 1
        compare(ctx, v.get_word(o), m.read(o, 32), "get_word", off=o, nbytes=32)
    pairs = set()
    tl = sorted(set(touched) | {0, n})
    for a in tl:
        for b in tl:
            if a < b:
                pairs.add((a, b))
    pairs |= {(max(0, n - 1), n + 2), (n, n + 3), (0, n + 1)}
    for a, b in (sorted(pairs) if len(pairs) <= 5 else ctx.rng.sample(sorted(pairs), 5)):
        res["counters"]["reads"] += 1
        sl = v.slice(a, b)
        if len(sl) != b - a:
            raise Mismatch("slice length", a=a, b=b, got=len(sl))
        if not chunks_well_formed(sl):
            raise Mismatch("chunk invariant broken in slice result", a=a, b=b)
        compare(ctx, sl, m.read(a, b - a), "slice", a=a, b=b)
        compare(ctx, v[a:b], m.read(a, b - a), "__getitem__(slice)", a=a, b=b)
    if full:
        res["counters"]["reads"] += 1
        u = v.unwrap()
        if n == 0:
            if u != b"":
                raise Mismatch("unwrap of empty", got=repr(u))
        else:
            compare(ctx, u, m.read(0, n), "unwrap")


# ---------------------------------------------------------------------------- operations
def apply_op(ctx, live, op, res):
    """op: tuple describing the operation; mutates live[*]; returns list of touched offsets and target"""
    kind = op[0]
    tr = live[op[1] % len(live)]
    v, m = tr.vec, tr.model
    res["features"]["op:" + kind] += 1
    if kind == "append":
        _, _, vk, n = op
        val, cells = mk_value(ctx, vk, n, v, m)
        before = len(m)
        v.append(val)
        m.append(cells)
        return tr, [before, before + n]
    if kind == "set_byte":
        _, _, off, vk = op
        if vk == "int":
            b = ctx.rng.randrange(256)
            val, cells = b, [b]
        elif vk == "bv8":
            val, cells = mk_value(ctx, "bv", 1)
        else:
            val, cells = mk_value(ctx, "sym", 1)
        v.set_byte(off, val)
        m.write(off, cells)
        return tr, [off, off + 1]
    if kind == "setitem_byte":
        _, _, off, vk = op
        b = ctx.rng.randrange(256)
        v[off] = b
        m.write(off, [b])
        return tr, [off, off + 1]
    if kind in ("set_slice", "setitem_slice", "set_mslice"):
        _, _, start, n, vk = op
        val, cells = mk_value(ctx, vk, n, v, m)
        if vk in ("self", "mixedvec"):
            res["features"]["bytevec_valued_write"] += 1
        # white-box feature counters: aligned overwrite of exactly one existing chunk
        info = v._load_chunk(start) if start < len(v) and n else None
        if info is not None and info.found() and info.start == start and info.end == start + n:
            res["features"]["aligned_overwrite"] += 1
            if isinstance(val, ByteVec):
                res["features"]["aligned_overwrite_with_bytevec(nested chunk)"] += 1
        if kind == "set_slice":
            v.set_slice(start, start + n, val)
        elif kind == "setitem_slice":
            if start + n == 0 or n == 0:
                v.set_slice(start, start + n, val)
            else:
                v[start : start + n] = val
        else:
            st = State(memory=v)
            data = val if isinstance(val, ByteVec) else ByteVec(val)
            st.set_mslice(start, data)
        m.write(start, cells)
        return tr, [start, start + n]
    if kind == "set_word":
        _, _, off, vk = op
        if vk == "int":
            x = ctx.rng.getrandbits(ctx.rng.choice([8, 64, 256]))
            val, cells = x, list(x.to_bytes(32, "big"))
        elif vk == "bytes":
            val, cells = mk_value(ctx, "bytes", 32)
        elif vk == "bvval":
            x = ctx.rng.getrandbits(256)
            val, cells = z3.BitVecVal(x, 256), list(x.to_bytes(32, "big"))
        elif vk == "bool":
            p = z3.Bool(f"p{ctx.nsym}")
            ctx.nsym += 1
            ctx.vals.register(p)
            t = z3.If(p, z3.BitVecVal(1, 256), z3.BitVecVal(0, 256))
            val, cells = p, cells_of_term(t)
        elif vk == "bv":
            val, cells = mk_value(ctx, "bv", 32)
        else:
            val, cells = mk_value(ctx, vk, 32)
        v.set_word(off, val)
        m.write(off, cells)
        return tr, [off, off + 32]
    if kind == "copy":
        how = op[2]
        if how == "copy":
            nv = v.copy()
        elif how == "deepcopy":
            import copy as _copy

            nv = _copy.deepcopy(State(memory=v)).memory
        else:
            nv = v.slice(0, len(v))
        res["features"]["copies"] += 1
        if len(live) < 4:
            live.append(Tracked(nv, m.copy(), f"{tr.name}'"))
        else:
            live[ctx.rng.randrange(1, len(live))] = Tracked(nv, m.copy(), f"{tr.name}'")
        return tr, [0, len(m)]
    if kind == "concretize":
        # substitute one symbol by a constant: returns a *new* vector; the original is unchanged
        syms = [c[0] for c in m.cells if not isinstance(c, int) and z3.is_const(c[0])]
        if not syms:
            return tr, [0]
        s = ctx.rng.choice(syms)
        x = ctx.rng.getrandbits(s.size())
        nv = v.concretize({s: z3.BitVecVal(x, s.size())})
        xb = x.to_bytes(s.size() // 8, "big")
        nm = Flat([xb[c[1]] if (not isinstance(c, int) and z3.eq(c[0], s)) else c for c in m.cells])
        res["features"]["concretize"] += 1
        if len(live) < 4:
            live.append(Tracked(nv, nm, f"{tr.name}c"))
        else:
            live[ctx.rng.randrange(1, len(live))] = Tracked(nv, nm, f"{tr.name}c")
        return tr, [0, len(m)]
    if kind == "mslice_read":
        _, _, start, n = op
        st = State(memory=v)
        got = st.mslice(start, n)
        if len(got) != n:
            raise Mismatch("mslice length", start=start, n=n, got=len(got))
        if n:
            compare(ctx, got, m.read(start, n), "State.mslice", start=start, n=n)
        return tr, [start, start + n]
    raise ValueError(op)


def describe(op):
    return [x if not isinstance(x, bytes) else x.hex() for x in op]


def run_sequence(ops, seed, res, light=False):
    """replay one operation sequence from an empty vector; returns None or a violation dict"""
    rng = random.Random(seed)
    ctx = Ctx(rng)
    live = [Tracked(ByteVec(), Flat(), "v")]
    res["counters"]["evaluations"] += 1
    try:
        for i, op in enumerate(ops):
            tr, touched = apply_op(ctx, live, op, res)
            res["counters"]["operations"] += 1
            check_reads(ctx, tr, touched, res, full=not light or i == len(ops) - 1)
            # copies / other live vectors must be unaffected
            others = [o for o in live if o is not tr]
            if others:
                res["counters"]["copy_rechecks"] += 1
                check_reads(ctx, others[i % len(others)], touched[:2], res, full=False)
    except Mismatch as e:
        return dict(what=f"ByteVec differs from the flat model: {e.what}", key=f"mismatch-{e.what}-{ops[i][0]}", step=i,
                    ops=[describe(o) for o in ops], seed=seed, detail={k: (v if not isinstance(v, bytes) else v.hex()) for k, v in e.kw.items()})
    except InvariantBroken as e:
        return dict(what="ByteVec class invariant broken (icontract)", key=f"invariant-{ops[i][0]}", step=i, ops=[describe(o) for o in ops], seed=seed, detail=str(e)[:400])
    except Exception as e:
        import traceback

        return dict(what=f"exception in ByteVec operation: {type(e).__name__}", key=f"exception-{type(e).__name__}-{ops[i][0]}", step=i,
                    ops=[describe(o) for o in ops], seed=seed, detail=traceback.format_exc()[-900:])
    return None


# ---------------------------------------------------------------------------- workloads
def op_alphabet(full):
    offs = [0, 1, 31, 32, 33, 63, 64, 65] if full else [0, 1, 31, 32, 33, 64]
    sizes = [1, 31, 32, 33] if full else [1, 32, 33]
    kinds = ["bytes", "sym", "self", "schunk", "mixedvec"] if full else ["bytes", "sym", "self"]
    ops = []
    for n in sizes:
        for vk in (["bytes", "sym", "mixedvec"] if full else ["bytes", "sym"]):
            ops.append(("append", 0, vk, n))
    for o in offs:
        ops.append(("set_byte", 0, o, "int"))
        if full:
            ops.append(("set_byte", 0, o, "sym"))
        for vk in (["int", "sym", "bv"] if full else ["int", "sym"]):
            ops.append(("set_word", 0, o, vk))
        for n in sizes:
            for vk in kinds:
                ops.append(("set_slice", 0, o, n, vk))
    return ops


def random_ops(rng, length):
    """white-box guided: offsets from the current chunk boundaries are chosen at replay time, so the
    random history is generated *online* (see run_random)"""
    raise NotImplementedError


def run_random(seed, length, res):
    rng = random.Random(seed)
    ctx = Ctx(rng)
    live = [Tracked(ByteVec(), Flat(), "v")]
    res["counters"]["evaluations"] += 1
    res["counters"]["random_histories"] += 1
    ops = []
    i = 0
    try:
        for i in range(length):
            ti = rng.randrange(len(live)) if rng.random() < 0.35 else 0
            v = live[ti].vec
            bounds = list(v.chunks.keys()) + [len(v)]
            def off():
                r = rng.random()
                if bounds and r < 0.7:
                    return max(0, rng.choice(bounds) + rng.choice([-1, 0, 0, 0, 1]))
                if r < 0.85:
                    return rng.choice([0, 1, 31, 32, 33, 63, 64, 65])
                return rng.randrange(0, len(v) + 40)
            def size(o):
                r = rng.random()
                if bounds and r < 0.6:
                    later = [b for b in bounds if b > o]
                    if later:
                        return rng.choice(later) - o + rng.choice([0, 0, 0, 1, -1]) or 1
                return rng.choice([1, 2, 31, 32, 33, rng.randrange(1, 70)])
            r = rng.random()
            if r < 0.08:
                op = ("append", ti, rng.choice(["bytes", "sym", "mixedvec", "bv", "cchunk", "schunk", "zeros"]), rng.choice([0, 1, 31, 32, 33]))
            elif r < 0.18:
                op = (rng.choice(["set_byte", "setitem_byte"]), ti, off(), rng.choice(["int", "sym", "bv8"]))
            elif r < 0.30:
                op = ("set_word", ti, off(), rng.choice(["int", "bytes", "bvval", "bool", "bv", "sym", "expr"]))
            elif r < 0.78:
                o = off()
                n = max(0, size(o))
                if rng.random() < 0.04:
                    n = 0
                op = (rng.choice(["set_slice", "set_slice", "setitem_slice", "set_mslice"]), ti, o, n, rng.choice(SLICE_KINDS))
            elif r < 0.88:
                op = ("copy", ti, rng.choice(["copy", "deepcopy", "slice"]))
            elif r < 0.93:
                op = ("concretize", ti)
            else:
                o = off()
                op = ("mslice_read", ti, o, max(0, size(o)))
            ops.append(op)
            tr, touched = apply_op(ctx, live, op, res)
            res["counters"]["operations"] += 1
            check_reads(ctx, tr, touched, res, full=(i % 5 == 4 or i == length - 1))
            others = [o for o in live if o is not tr]
            if others:
                res["counters"]["copy_rechecks"] += 1
                check_reads(ctx, others[i % len(others)], touched[:2], res, full=(i % 7 == 0))
    except Mismatch as e:
        return dict(what=f"ByteVec differs from the flat model: {e.what}", key=f"mismatch-{e.what}-{ops[-1][0]}", step=i,
                    ops=[describe(o) for o in ops[-12:]], seed=seed, length=length, random=True,
                    detail={k: (v if not isinstance(v, bytes) else v.hex()) for k, v in e.kw.items()})
    except InvariantBroken as e:
        return dict(what="ByteVec class invariant broken (icontract)", key=f"invariant-{ops[-1][0]}", step=i, ops=[describe(o) for o in ops[-12:]],
                    seed=seed, length=length, random=True, detail=str(e)[:400])
    except Exception as e:
        import traceback

        return dict(what=f"exception in ByteVec operation: {type(e).__name__}", key=f"exception-{type(e).__name__}-{ops[-1][0] if ops else ''}", step=i,
                    ops=[describe(o) for o in ops[-12:]], seed=seed, length=length, random=True, detail=traceback.format_exc()[-900:])
    return None


# ---------------------------------------------------------------------------- probes
def run_code(seed, res):
    """code as a byte sequence: every read API of Contract (slice, unwrapped_slice, byte) on codes that are concrete, concrete
    prefix + symbolic chunks, or symbolic from the start, against the flat zero-extended model, on a grid around the chunk
    boundaries and the end of the code"""
    rng = random.Random(seed)
    ctx = Ctx(rng)
    shape = rng.choice(["concrete", "prefix+sym", "prefix+sym+bytes", "sym-first", "empty", "bytes-object"])
    parts = []
    if shape == "concrete":
        parts = [("bytes", rng.choice([1, 2, 5, 31, 32, 33, 40, 70]))]
    elif shape == "prefix+sym":
        parts = [("bytes", rng.choice([1, 3, 32, 37])), ("sym", rng.choice([1, 4, 32]))]
    elif shape == "prefix+sym+bytes":
        parts = [("bytes", rng.choice([1, 6, 32, 45])), ("sym", rng.choice([1, 32, 33])), ("bytes", rng.choice([1, 2, 32])), ("sym", rng.choice([2, 20]))]
    elif shape == "sym-first":
        parts = [("sym", rng.choice([1, 32, 35])), ("bytes", rng.choice([1, 8, 32]))]
    elif shape == "bytes-object":
        parts = [("bytes", rng.choice([1, 7, 32, 64, 65]))]
    cells, bounds, pos = [], {0}, 0
    if shape == "bytes-object":
        v, c = mk_value(ctx, "bytes", parts[0][1])
        code = v
        cells = c
        bounds.add(len(c))
    else:
        code = ByteVec()
        for kind, k in parts:
            v, c = mk_value(ctx, kind, k)
            code.append(v)
            cells += c
            pos += k
            bounds.add(pos)
    m = Flat(cells)
    con = Contract(code)
    n = len(cells)
    if len(con) != n:
        raise Mismatch("len(Contract)", got=len(con), want=n, shape=shape)
    offs = sorted({o for b in bounds for o in (b - 2, b - 1, b, b + 1, b + 2) if o >= 0} | {n + 40, n + 5000})
    sizes = sorted({0, 1, 2, 3, 31, 32, 33, n, n + 1} | {b for b in bounds})
    for a in offs:
        res["counters"]["reads"] += 1
        res["counters"]["code_reads"] += 1
        compare(ctx, con[a], m.read(a, 1), "Contract.__getitem__", off=a, nbytes=1, shape=shape, parts=parts)
        for k in sizes:
            res["counters"]["code_reads"] += 1
            sl = con.slice(a, k)
            if len(sl) != k:
                raise Mismatch("Contract.slice length", start=a, size=k, got=len(sl), shape=shape, parts=parts)
            if k:
                compare(ctx, sl, m.read(a, k), "Contract.slice", start=a, size=k, shape=shape, parts=parts)
                compare(ctx, con.unwrapped_slice(a, a + k), m.read(a, k), "Contract.unwrapped_slice", start=a, stop=a + k, shape=shape, parts=parts)
    res["distinct"].append(f"code:{shape}:{[k for _, k in parts]}")
    return None


def probe_alias_nested():
    """aligned set_slice with a ByteVec value must not alias the source vector"""
    a = ByteVec()
    a.append(bytes(range(32)))
    b = ByteVec()
    b.append(bytes([0xAA] * 32))
    a.set_slice(0, 32, b)
    b.set_byte(0, 0x55)
    got = a.get_byte(0)
    if got != 0xAA:
        return f"a.set_slice(0,32,b) then b.set_byte(0,0x55): a.get_byte(0) == {got:#x} (expected 0xaa): destination aliases the source ByteVec"
    return None


def worker(task):
    kind = task[0]
    res = new_result()
    _imports()
    install_icontract()
    e0, i0 = INV["evals"], INV["icontract_evals"]
    if kind == "enum":
        _, alphabet_full, length, lo, hi, seed = task
        alpha = op_alphabet(alphabet_full)
        n = len(alpha)
        for idx in range(lo, hi):
            ops = []
            k = idx
            for _ in range(length):
                ops.append(alpha[k % n])
                k //= n
            v = run_sequence(ops, seed * 1000003 + idx, res, light=True)
            if v:
                res["violations"].append(v)
            nontrivial = any(o[0] == "set_slice" for o in ops) and len({o[0] for o in ops}) > 1
            if nontrivial:
                res["distinct"].append(f"e{length}:{idx}")
            if idx % 5003 == 0:
                res["samples"].append({"kind": f"enumerated-len{length}", "ops": [describe(o) for o in ops]})
    elif kind == "random":
        _, lo, hi, seed, length = task
        for idx in range(lo, hi):
            v = run_random(seed * 7919 + idx, length, res)
            if v:
                res["violations"].append(v)
            res["distinct"].append(f"r:{idx}")
        res["samples"].append({"kind": "random-history", "seed": seed * 7919 + lo, "length": length})
    elif kind == "code":
        _, lo, hi, seed = task
        for idx in range(lo, hi):
            try:
                run_code(seed * 104729 + idx, res)
            except Mismatch as e:
                res["violations"].append({"what": f"code read differs from the flat zero-extended model: {e.what}", "witness": {"code": True, "seed": seed * 104729 + idx, **{k: (v if isinstance(v, (int, str)) else repr(v)) for k, v in e.kw.items()}}})
    res["counters"]["invariant_evaluations"] += INV["evals"] - e0
    res["counters"]["icontract_invariant_evaluations"] += INV["icontract_evals"] - i0
    return res


def main():
    run = Run("C07", "exploration")
    _imports()
    has_ic = install_icontract()
    run.rule = ("operation sequences on ByteVec mirrored on a flat cell model: exhaustive sequences of length L over a boundary op alphabet + random histories "
                "with offsets drawn from current chunk boundaries +-1; non-trivial = distinct sequence mixing a slice write with another operation kind, or a random history")
    run.assumptions = ["flat cell model in checks/c07.py", "symbolic equality decided by evaluation under 4 valuations (zeros, ones, 2 random) of all symbols"]
    run.extra["icontract_available"] = has_ic
    if run.replay:
        w = json.load(open(run.replay))["witness"]
        res = new_result()
        if w.get("code"):
            v = None
            try:
                run_code(w["seed"], res)
            except Mismatch as e:
                v = {"what": f"code read differs from the flat zero-extended model: {e.what}", "witness": w}
        elif w.get("random"):
            v = run_random(w["seed"], w["length"], res)
        else:
            ops = [tuple(o) for o in w["ops"]]
            v = run_sequence(ops, w["seed"], res)
        if v:
            res["violations"].append(v)
        run.merge(res)
        run.finish()

    msg = probe_alias_nested()
    run.count("probe_alias_nested")
    if msg:
        run.known_finding("aligned-set_slice-aliases-source-bytevec", msg)

    tasks = []
    if run.thorough():
        n2 = len(op_alphabet(True)) ** 2
        tasks += [("enum", True, 2, lo, min(n2, lo + 3000), run.seed) for lo in range(0, n2, 3000)]
        n3 = len(op_alphabet(False)) ** 3
        # a sampled eighth of the length-3 space (a different part per seed); the complete space costs about 20 CPU-hours
        rr = random.Random(run.seed)
        for lo in rr.sample(range(0, n3, 3000), max(1, (n3 // 3000) // 8)):
            tasks.append(("enum", False, 3, lo, min(n3, lo + 3000), run.seed))
        nr, length = run.n(0, 6000), 60
    else:
        n2 = len(op_alphabet(False)) ** 2
        tasks += [("enum", False, 2, lo, min(n2, lo + 600), run.seed) for lo in range(0, n2, 600)]
        n3 = len(op_alphabet(False)) ** 3
        # sampled slice of the length-3 space (different region per seed)
        rr = random.Random(run.seed)
        for _ in range(run.n(10, 0)):
            lo = rr.randrange(0, n3 - 300)
            tasks.append(("enum", False, 3, lo, lo + 300, run.seed))
        nr, length = run.n(480, 0), 40
    tasks += [("random", lo, min(nr, lo + 40), run.seed, length) for lo in range(0, nr, 40)]
    ncode = run.n(240, 4000)
    tasks += [("code", lo, min(ncode, lo + 40), run.seed) for lo in range(0, ncode, 40)]
    random.Random(run.seed).shuffle(tasks)
    run_pool(run, worker, tasks, soft_timeout=900)
    run.exhaustive = False
    run.extra["exhaustive_note"] = "the length-2 sequence space (quick: reduced alphabet; thorough: full alphabet) is enumerated completely; the length-3 space (reduced alphabet) and random histories are sampled"
    run.require("operations", 5000)
    run.require("reads", 50000)
    run.require("copy_rechecks", 500)
    run.require("code_reads", 5000)
    run.require("invariant_evaluations", 5000)
    if has_ic:
        run.require("icontract_invariant_evaluations", 5000)
    run.finish()


if __name__ == "__main__":
    main()
