"""C18 — configuration resolves by precedence and round-trips.

 1. precedence: random stacks of up to 5 override layers (all sources, repeated sources, None and falsy
    values) are resolved by halmos' Config and by an independent reference resolver; every attribute read and
    value_with_source() are compared (reads in random order, repeated, interleaved across live objects);
    resolved_solver_command over the full source matrix of --solver x --solver-command.
 2. round trips: grammar-generated values of every structured option satisfy parse(unparse(v)) == v, also
    through the argparse and TOML entry points; clearly malformed strings are rejected (exception/SystemExit).
 3. scoping through the real entry points: load_config (toml file + CLI), with_natspec, with_devdoc and
    run_contract on annotated artifacts; an annotation must only affect its own contract / function.
    parse_natspec is compared with a reference parser."""

import io
import json
import os
import random
import re
import shlex
import tempfile
import contextlib

import report
from report import Run, new_result, run_pool


def _imports():
    global cfgmod, Config, ConfigSource, default_config, arg_parser, toml_parser, hm, parse_natspec, TraceEvent
    import halmos.config as cfgmod
    import halmos.__main__ as hm
    from halmos.build import parse_natspec
    from halmos.config import Config, ConfigSource, TraceEvent, arg_parser, default_config, toml_parser
    import logging

    logging.getLogger("halmos").setLevel(logging.CRITICAL)


SRC_NAMES = ["config_file", "contract_annotation", "function_annotation", "command_line"]

OPTIONS = {
    "loop": [0, 1, 2, 3, 7],
    "depth": [0, 5, 100],
    "width": [0, 1, 10],
    "invariant_depth": [0, 2, 3],
    "solver": ["yices", "z3", "cvc5", "bitwuzla"],
    "solver_command": ["", "my-solver --x", "/bin/true", "sol -a 'b c'"],
    "storage_layout": ["solidity", "generic"],
    "panic_error_codes": [set(), {1}, {0x11, 0x32}],
    "array_lengths": [{}, {"x": [1, 2]}, {"a[0]": [0]}],
    "default_bytes_lengths": [[0], [0, 65, 1024], [32]],
    "solver_timeout_assertion": [0, 0.0, 1.5, 60.0],
    "solver_timeout_branching": [0, 0.001, 10.0],
    "ffi": [True, False],
    "symbolic_jump": [True, False],
    "early_exit": [True, False],
    "cache_solver": [True, False],
    "trace_events": [[], ["LOG"]],
    "function": ["", "check_", "(check|invariant)_"],
    "statistics": [True, False],
}


def ref_resolve(layers, name, defaults):
    """layers: list of (source_int, dict) oldest first, after the default layer.  Highest source wins;
    among equals the most recent layer; None never overrides."""
    best = (defaults.get(name), 1, -1)  # value, source, index
    for idx, (src, kv) in enumerate(layers):
        v = kv.get(name)
        if v is None:
            continue
        if (src, idx) > (best[1], best[2]) or best[0] is None:
            if src >= best[1]:
                best = (v, src, idx)
    return best[0], best[1]


def part_precedence(rng, res, n):
    dflt = default_config()
    defaults = {k: getattr(dflt, k) for k in OPTIONS}
    live = []
    for _ in range(n):
        nl = rng.randrange(0, 6)
        layers = []
        cfg = dflt
        for _ in range(nl):
            src = rng.choice(SRC_NAMES)
            kv = {}
            for name in rng.sample(sorted(OPTIONS), rng.randrange(0, 6)):
                v = rng.choice(OPTIONS[name] + [None])
                if name == "trace_events" and v is not None:
                    v = [TraceEvent(x) for x in v]
                kv[name] = v
            cfg = cfg.with_overrides(getattr(ConfigSource, src), **kv)
            layers.append((int(getattr(ConfigSource, src)), kv))
        live.append((cfg, layers))
        if len(live) > 6:
            live.pop(rng.randrange(len(live)))
        res["counters"]["evaluations"] += 1
        res["counters"]["stacks"] += 1
        if any(not v and v is not None for _, kv in layers for v in kv.values()):
            res["counters"]["stacks_with_falsy_overrides"] += 1
        if len({s for s, _ in layers}) < len(layers):
            res["counters"]["stacks_with_repeated_source"] += 1
            res["distinct"].append("stack:" + str(hash(str(layers))))
        # reads: random order, repeated, interleaved with reads on other live objects
        names = sorted(OPTIONS) * 2
        rng.shuffle(names)
        for name in names:
            c2, l2 = rng.choice(live) if rng.random() < 0.3 else (cfg, layers)
            want_v, want_s = ref_resolve(l2, name, defaults)
            got_v = getattr(c2, name)
            got_v2, got_s = c2.value_with_source(name)
            res["counters"]["attribute_reads"] += 1
            if got_v != want_v or got_v2 != want_v or int(got_s) != want_s:
                res["violations"].append(dict(what=f"option '{name}' resolves to the wrong layer", key="precedence:" + name, option=name,
                                              got=repr(got_v), got_source=int(got_s), want=repr(want_v), want_source=want_s,
                                              layers=[(s, {k: repr(v) for k, v in kv.items()}) for s, kv in l2]))
                return


def part_solver_command(rng, res):
    orig = cfgmod.get_solver_command
    cfgmod.get_solver_command = lambda name: [f"/stub/{name}"]
    try:
        srcs = [None] + SRC_NAMES
        for s1 in srcs:
            for s2 in srcs:
                for order in (0, 1):
                    for cmd in ("my-solver --flag 'a b'", ""):
                        layers = []
                        if s1:
                            layers.append((s1, {"solver": "cvc5"}))
                        if s2:
                            layers.append((s2, {"solver_command": cmd}))
                        if order:
                            layers.reverse()
                        if s1 and s2 and s1 == s2 and rng.random() < 0.5:
                            layers = [(s1, {"solver": "cvc5", "solver_command": cmd})]
                        cfg = default_config()
                        for s, kv in layers:
                            cfg = cfg.with_overrides(getattr(ConfigSource, s), **kv)
                        sv = int(getattr(ConfigSource, s1)) if s1 else 1
                        sc = int(getattr(ConfigSource, s2)) if s2 else 0
                        solver = "cvc5" if s1 else default_config().solver
                        want = shlex.split(cmd) if (s2 and cmd and sc >= sv) else [f"/stub/{solver}"]
                        with contextlib.redirect_stderr(io.StringIO()):
                            got = cfg.resolved_solver_command
                        res["counters"]["solver_command_cases"] += 1
                        res["counters"]["evaluations"] += 1
                        if got != want:
                            res["violations"].append(dict(what="--solver-command vs --solver precedence", key="solver-command", solver_source=s1, command_source=s2,
                                                          command=cmd, order=order, got=got, want=want))
                            return
    finally:
        cfgmod.get_solver_command = orig


# ---------------------------------------------------------------------------- part 2
def gen_timeout_string(rng):
    unit = rng.choice(["ms", "s", "m", "h", ""])
    k = rng.random()
    if k < 0.4:
        num = str(rng.choice([0, 1, 2, 5, 10, 30, 59, 60, 100, 250, 999, 1000, 1500, 3600, 86400]))
    elif k < 0.8:
        num = f"{rng.choice([0, 1, 2, 15, 999])}.{rng.choice(['5', '25', '001', '75', '125'])}"
    elif k < 0.9:
        num = str(rng.randrange(0, 100000))
    else:
        # many significant digits (a unparse that rounds to a few digits loses them)
        num = f"{rng.randrange(1, 100000)}.{rng.randrange(1, 10**rng.choice([3, 4, 6])):0{rng.choice([4, 6])}d}".rstrip("0") or "1.5"
        if num.endswith("."):
            num += "5"
    return num + unit


def ref_parse_timeout(s):
    """documented syntax: NUMBER[ms|s|m|h], default unit ms"""
    m = re.fullmatch(r"(\d+(?:\.\d+)?)(ms|s|m|h)?", s)
    if not m:
        return None
    x = float(m.group(1))
    u = m.group(2) or "ms"
    if s == "0":
        return 0.0
    return {"ms": x / 1000, "s": x, "m": x * 60, "h": x * 3600}[u]


def part_roundtrip(rng, res, n):
    P = cfgmod
    for _ in range(n):
        res["counters"]["evaluations"] += 1
        k = rng.randrange(5)
        if k == 0:
            s = gen_timeout_string(rng)
            want = ref_parse_timeout(s)
            v = P.ParseTimeout.parse(s)
            res["counters"]["values:timeout"] += 1
            if want is None or abs(v - want) > 1e-12 * max(1, abs(want)):
                res["violations"].append(dict(what="timeout string parsed to a wrong value", key="timeout-parse", string=s, got=v, want=want))
                continue
            back = P.ParseTimeout.parse(P.ParseTimeout.unparse(v))
            if abs(back - v) > 1e-9 * max(1.0, abs(v)):
                res["violations"].append(dict(what="timeout does not survive unparse/parse", key="timeout-roundtrip", string=s, value=v, unparsed=P.ParseTimeout.unparse(v), back=back))
            if v != int(v) or v < 1:
                res["distinct"].append(f"timeout:{s}")
        elif k == 1:
            v = set(rng.sample([0, 1, 0x11, 0x12, 0x21, 0x22, 0x31, 0x32, 0x41, 0x51, 255, 256, 4096], rng.randrange(0, 5)))
            u = P.ParseErrorCodes.unparse(v)
            back = P.ParseErrorCodes.parse(u)
            res["counters"]["values:error_codes"] += 1
            if back != v:
                res["violations"].append(dict(what="error-code set does not survive unparse/parse", key="errorcodes-roundtrip", value=sorted(v), unparsed=u, back=sorted(back)))
            # decimal / hex / mixed spellings parse to the same set
            if v:
                spell = ",".join(rng.choice([str(x), hex(x), f" {x} "]) for x in v)
                if P.ParseErrorCodes.parse(spell) != v:
                    res["violations"].append(dict(what="error-code spelling parsed wrongly", key="errorcodes-parse", string=spell, want=sorted(v)))
            res["distinct"].append(f"codes:{sorted(v)}")
        elif k == 2:
            names = rng.sample(["x", "y", "a[0]", "p.f0", "data", "_b", "arr[1][2]", "s1"], rng.randrange(0, 4))
            v = {nm: rng.sample([0, 1, 2, 3, 32, 65, 1024], rng.randrange(1, 4)) for nm in names}
            u = P.ParseArrayLengths.unparse(v)
            back = P.ParseArrayLengths.parse(u)
            res["counters"]["values:array_lengths"] += 1
            if back != v:
                res["violations"].append(dict(what="array-length map does not survive unparse/parse", key="arraylengths-roundtrip", value=v, unparsed=u, back=back))
            # alternative spellings: single size without braces, spaces
            if v:
                spell = ", ".join(f"{nm} = {vs[0]}" if len(vs) == 1 and rng.random() < 0.7 else f"{nm}={{{', '.join(map(str, vs))}}}" for nm, vs in v.items())
                if P.ParseArrayLengths.parse(spell) != v:
                    res["violations"].append(dict(what="array-length spelling parsed wrongly", key="arraylengths-parse", string=spell, want=v, got=P.ParseArrayLengths.parse(spell)))
            res["distinct"].append(f"lens:{sorted(v.items())}")
        elif k == 3:
            v = [rng.choice([0, 1, 2, 32, 65, 1024, 99999]) for _ in range(rng.randrange(1, 5))]
            u = P.ParseCSVInt.unparse(v)
            res["counters"]["values:csv_int"] += 1
            if P.ParseCSVInt.parse(u) != v:
                res["violations"].append(dict(what="int list does not survive unparse/parse", key="csvint-roundtrip", value=v, unparsed=u))
        else:
            v = [TraceEvent(x) for x in rng.sample(["LOG", "SSTORE", "SLOAD"], rng.randrange(0, 4))]
            u = P.ParseCSVTraceEvent.unparse(v)
            res["counters"]["values:trace_events"] += 1
            if P.ParseCSVTraceEvent.parse(u) != v:
                res["violations"].append(dict(what="trace-event list does not survive unparse/parse", key="traceevents-roundtrip", value=[x.value for x in v], unparsed=u))


MALFORMED = {
    "solver_timeout_assertion": ["abc", "5x", "ms", "", "1..2s", "s5", "--", "5 5s", "1,5s"],
    "panic_error_codes": ["abc", "0x", "1,x", "", ",", "0xZZ", "1;2"],
    "array_lengths": ["x", "x=", "=3", "x={}", "x={a}", "x=1,y", "x={1,2", "x=1}", "x=={1}", "x={1},,y=2", "x={,}", "x={,,}", "x={1,2},y={,}", "x=,"],
    "default_bytes_lengths": ["a", "1,b", "", ",", "1;2"],
    "trace_events": ["FOO", "LOG,BAR", "log"],
}


def part_malformed(rng, res):
    acts = {"solver_timeout_assertion": cfgmod.ParseTimeout, "panic_error_codes": cfgmod.ParseErrorCodes, "array_lengths": cfgmod.ParseArrayLengths,
            "default_bytes_lengths": cfgmod.ParseCSVInt, "trace_events": cfgmod.ParseCSVTraceEvent}
    for opt, strings in MALFORMED.items():
        for s in strings:
            for route in ("action", "argparse", "toml"):
                res["counters"]["malformed_strings"] += 1
                res["counters"]["evaluations"] += 1
                rejected = False
                try:
                    with contextlib.redirect_stderr(io.StringIO()):
                        if route == "action":
                            acts[opt].parse(s)
                        elif route == "argparse":
                            arg_parser().parse_args([f"--{opt.replace('_', '-')}={s}"])
                        else:
                            esc = s.replace("\\", "\\\\").replace('"', '\\"')
                            toml_parser().parse_str(f'[global]\n{opt.replace("_", "-")} = "{esc}"\n')
                except (Exception, SystemExit):
                    rejected = True
                if rejected:
                    res["counters"]["malformed_rejected"] += 1
                else:
                    res["violations"].append(dict(what="a malformed option value was accepted", key=f"malformed:{opt}:{route}", option=opt, string=s, route=route))


def part_toml_bare(rng, res):
    """TOML values written without quotes (numbers): a timeout keeps its default unit (milliseconds), exactly like the same number
    quoted or on the command line; structured options given as a bare number are either rejected or parsed like the quoted form —
    never stored raw"""
    acts = {"solver_timeout_assertion": cfgmod.ParseTimeout, "solver_timeout_branching": cfgmod.ParseTimeout, "panic_error_codes": cfgmod.ParseErrorCodes,
            "default_array_lengths": cfgmod.ParseCSVInt, "default_bytes_lengths": cfgmod.ParseCSVInt}
    for opt, act in acts.items():
        for v in [0, 1, 2, 100, 1500, 30000, 1.5, 0.5, 2500.0]:
            if isinstance(v, float) and act is not cfgmod.ParseTimeout:
                continue
            res["counters"]["evaluations"] += 1
            res["counters"]["toml_bare_values"] += 1
            key = opt.replace("_", "-")
            try:
                quoted = toml_parser().parse_str(f'[global]\n{key} = "{v}"\n')[opt]
            except (Exception, SystemExit):
                quoted = None
            try:
                bare = toml_parser().parse_str(f"[global]\n{key} = {v}\n")[opt]
            except (Exception, SystemExit):
                res["counters"]["toml_bare_rejected"] += 1
                continue
            if act is cfgmod.ParseTimeout:
                want = ref_parse_timeout(str(v) if not isinstance(v, float) or v != int(v) else str(v))
                want = ref_parse_timeout(repr(v)) if want is None else want
                if want is None or abs(bare - want) > 1e-9 * max(1, abs(want)):
                    res["violations"].append(dict(what="an unquoted TOML timeout lost its default unit / was parsed differently from the quoted value", key=f"toml-bare:{opt}", value=v, got=bare, want=want, quoted=quoted))
                else:
                    res["counters"]["toml_bare_equal_to_quoted"] += 1
            elif bare != quoted or type(bare) is not type(quoted):
                res["violations"].append(dict(what="a structured option given as a bare TOML number was stored unparsed", key=f"toml-bare:{opt}", value=v, got=repr(bare), quoted=repr(quoted)))
            else:
                res["counters"]["toml_bare_equal_to_quoted"] += 1


# ---------------------------------------------------------------------------- part 3
def ref_natspec(text):
    out = ""
    tags = list(re.finditer(r"@\S+", text))
    for i, m in enumerate(tags):
        if m.group(0) == "@custom:halmos":
            end = tags[i + 1].start() if i + 1 < len(tags) else len(text)
            out += text[m.end():end]
    return out.strip()


def part_natspec(rng, res, n):
    words = ["@custom:halmos", "@custom:halmos", "@notice", "@dev", "@custom:other", "--loop 3", "--width 5", "--depth 7", "blah blah", "\n", "\n ", "  ", "@param x", "user@example.com",
             "@custom:halmosX", "--solver z3", "text", "@title T"]
    for _ in range(n):
        text = " ".join(rng.choice(words) for _ in range(rng.randrange(0, 10)))
        got = parse_natspec({"text": text})
        want = ref_natspec(text)
        res["counters"]["natspec_texts"] += 1
        res["counters"]["evaluations"] += 1
        if got != want:
            res["violations"].append(dict(what="parse_natspec differs from the reference parser", key="natspec", text=text, got=got, want=want))
            return
        if "@custom:halmos" in text:
            res["distinct"].append("natspec:" + text)


def part_entrypoints(rng, res, n):
    """load_config(toml + CLI) -> with_natspec -> with_devdoc ; compare a set of options with the reference"""
    ints = {"loop": [1, 2, 3, 5], "width": [0, 4, 9], "depth": [0, 11, 50], "invariant_depth": [1, 2, 4]}
    for _ in range(n):
        res["counters"]["evaluations"] += 1
        res["counters"]["entrypoint_stacks"] += 1
        toml_kv = {k: rng.choice(v) for k, v in ints.items() if rng.random() < 0.5}
        cli_kv = {k: rng.choice(v) for k, v in ints.items() if rng.random() < 0.4}
        nat_kv = {k: rng.choice(v) for k, v in ints.items() if rng.random() < 0.5}
        doc = {f: {k: rng.choice(v) for k, v in ints.items() if rng.random() < 0.5} for f in ("check_a()", "check_b(uint256)")}
        if rng.random() < 0.5:
            toml_kv["solver_timeout_assertion"] = rng.choice(["1500ms", "2s", "0"])
        with tempfile.TemporaryDirectory(dir=os.environ.get("VERIF_WORK")) as d:
            with open(os.path.join(d, "halmos.toml"), "w") as f:
                f.write("[global]\n" + "".join(f"{k.replace('_', '-')} = {json.dumps(v)}\n" for k, v in toml_kv.items()))
            cli = ["--root", d] + [x for k, v in cli_kv.items() for x in (f"--{k.replace('_', '-')}", str(v))]
            with contextlib.redirect_stderr(io.StringIO()):
                base = hm.load_config(cli)
        opts = lambda kv: " ".join(f"--{k.replace('_', '-')} {v}" for k, v in kv.items())
        natspec = {"text": f"some contract\n @custom:halmos {opts(nat_kv)}\n @dev x"} if nat_kv else ({"text": "no tags"} if rng.random() < 0.5 else None)
        cj = {"metadata": {"output": {"devdoc": {"methods": {f: ({"custom:halmos": opts(kv)} if kv else {"details": "x"}) for f, kv in doc.items()}}}}}
        contract_cfg = hm.with_natspec(base, "T", natspec)
        other_contract_cfg = hm.with_natspec(base, "U", None)
        dflt = default_config()
        for f in doc:
            fcfg = hm.with_devdoc(contract_cfg, f, cj)
            for k in ints:
                want = cli_kv.get(k, doc[f].get(k, nat_kv.get(k, toml_kv.get(k, getattr(dflt, k)))))
                got = getattr(fcfg, k)
                res["counters"]["entrypoint_reads"] += 1
                if got != want:
                    res["violations"].append(dict(what=f"effective '{k}' for {f} differs from the precedence rule", key="entrypoint:" + k, function=f, got=got, want=want,
                                                  toml=toml_kv, cli=cli_kv, natspec=nat_kv, devdoc=doc))
                    return
        # an annotation must not leak: the other contract sees only toml + cli
        for k in ints:
            want = cli_kv.get(k, toml_kv.get(k, getattr(dflt, k)))
            if getattr(other_contract_cfg, k) != want or getattr(hm.with_devdoc(other_contract_cfg, "check_zzz()", cj), k) != want:
                res["violations"].append(dict(what="an annotation leaked into another contract / function", key="leak:" + k, option=k))
                return
        if "solver_timeout_assertion" in toml_kv:
            want = ref_parse_timeout(toml_kv["solver_timeout_assertion"])
            if abs(base.solver_timeout_assertion - want) > 1e-12:
                res["violations"].append(dict(what="toml timeout parsed wrongly", key="toml-timeout", string=toml_kv["solver_timeout_assertion"], got=base.solver_timeout_assertion))
        if nat_kv and any(doc.values()):
            res["distinct"].append("entry:" + json.dumps([toml_kv, cli_kv, nat_kv, doc], sort_keys=True, default=str))


def worker(task):
    _imports()
    kind, idx, seed, n = task
    rng = random.Random(f"c18-{seed}-{kind}-{idx}")
    res = new_result()
    if kind == "prec":
        part_precedence(rng, res, n)
    elif kind == "round":
        part_roundtrip(rng, res, n)
    elif kind == "natspec":
        part_natspec(rng, res, n)
    elif kind == "entry":
        part_entrypoints(rng, res, n)
    elif kind == "fixed":
        part_solver_command(rng, res)
        part_malformed(rng, res)
        part_toml_bare(rng, res)
    if kind == "prec" and idx == 0:
        res["samples"].append(dict(kind="precedence", note="stack of layers (source, overrides) resolved for every option in OPTIONS"))
    return res


def main():
    run = Run("C18", "exploration")
    _imports()
    run.rule = ("random stacks of <= 5 override layers over all sources x option subsets (None and falsy values included) vs a reference resolver; grammar-generated structured values "
                "round-tripped; malformed strings through the action / argparse / toml routes; load_config + with_natspec + with_devdoc stacks; "
                "non-trivial = distinct stack with a repeated source, distinct fractional/sub-second timeout, distinct structured value, distinct annotated entry-point stack")
    run.assumptions = ["reference resolver and recognisers in checks/c18.py written from the documentation", "solver binary lookup stubbed for resolved_solver_command"]
    if run.replay:
        res = new_result()
        part_roundtrip(random.Random(0), res, 300)
        part_solver_command(random.Random(0), res)
        part_malformed(random.Random(0), res)
        part_toml_bare(random.Random(0), res)
        part_precedence(random.Random(0), res, 300)
        run.merge(res)
        run.finish()
    tasks = [("fixed", 0, run.seed, 0)]
    for i in range(16):
        tasks.append(("prec", i, run.seed, run.n(1200, 25000)))
        tasks.append(("round", i, run.seed, run.n(3000, 60000)))
        tasks.append(("natspec", i, run.seed, run.n(600, 12000)))
        tasks.append(("entry", i, run.seed, run.n(60, 1200)))
    os.makedirs(os.path.join(report.VERIF, ".work"), exist_ok=True)
    os.environ["VERIF_WORK"] = os.path.join(report.VERIF, ".work")
    run_pool(run, worker, tasks, soft_timeout=900)
    run.samples[:0] = [dict(kind="timeout-roundtrip", example="1500ms -> 1.5 -> unparse -> parse"), dict(kind="stack", example=[["config_file", {"loop": 3}], ["function_annotation", {"loop": 0}], ["command_line", {"loop": None}]])]
    run.require("attribute_reads", 100000)
    run.require("stacks_with_falsy_overrides", 500)
    run.require("solver_command_cases", 50)
    run.require("malformed_rejected", 50)
    run.require("entrypoint_reads", 1000)
    run.require("values:timeout", 1000)
    run.require("toml_bare_equal_to_quoted", 10)
    run.finish()


if __name__ == "__main__":
    main()
