"""C12 — symbolic calldata is a fully general, well-formed ABI encoding.

For generated function signatures (type trees up to depth 3) and candidate-length configurations the
(ByteVec, dyn_params) returned by halmos' mk_calldata is checked by an independent ABI decoder:
 1. selector and total length;
 2. for every tuple of size choices (capped), under a model fixing the size symbols and giving random
    values to all leaves, the bytes decode for that signature and the lengths met by the decoder are
    exactly the chosen ones (for reachable dynamic parameters);
 3. leaves are pairwise distinct unconstrained symbols; perturbing one symbol changes exactly the decoded
    leaf it stands for;
 4. generality: a random concrete argument tuple with the chosen lengths is an instance (every decoded leaf
    equals a single symbol / a slice of a single blob symbol, so the tuple is obtained by assigning them);
 5. every configured candidate is explored: a reader program loading each top-level length word through
    SEVM.run yields exactly the product of the candidate lists;
 6. unsupported types are rejected with an exception."""

import itertools
import json
import random

import z3

import abi
import report
from report import Run, new_result, run_pool


def _imports():
    global mk_calldata, FunctionInfo, symrun, ConfigSource, default_config
    import symrun
    from halmos.calldata import FunctionInfo, mk_calldata
    from halmos.config import ConfigSource, default_config


def selftest_oracle():
    # vectors from the Solidity ABI specification
    assert abi.selector("baz(uint32,bool)").hex() == "cdcd77c0"
    types = [("uint", 256), ("array", ("uint", 32), None), ("bytesN", 10), ("bytes",)]
    enc = abi.encode_tuple(types, [0x123, [0x456, 0x789], b"1234567890", b"Hello, world!"])
    want = ("0000000000000000000000000000000000000000000000000000000000000123" "0000000000000000000000000000000000000000000000000000000000000080"
            "3132333435363738393000000000000000000000000000000000000000000000" "00000000000000000000000000000000000000000000000000000000000000e0"
            "0000000000000000000000000000000000000000000000000000000000000002" "0000000000000000000000000000000000000000000000000000000000000456"
            "0000000000000000000000000000000000000000000000000000000000000789" "000000000000000000000000000000000000000000000000000000000000000d"
            "48656c6c6f2c20776f726c642100000000000000000000000000000000000000")
    assert enc.hex() == want, enc.hex()
    assert abi.selector("sam(bytes,bool,uint256[])").hex() == "a5643bf2"


def dyn_paths(t, path, out):
    """paths of dynamic-length nodes in declaration order as halmos names them"""
    k = t[0]
    if k in ("bytes", "string"):
        out.append((path, "bytes"))
    elif k == "array":
        if t[2] is None:
            out.append((path, "array"))
        # children are named path[i]; enumerated later when sizes are known
    elif k == "tuple":
        for i, x in enumerate(t[1]):
            dyn_paths(x, f"{path}.f{i}" if path else f"f{i}", out)
    return out


def halmos_name_to_path(name, param_names):
    return name


def make_case(rng):
    nparams = rng.randrange(1, 4)
    types = [abi.random_type(rng, rng.choice([0, 1, 2, 2, 3])) for _ in range(nparams)]
    names = [rng.choice([f"a{i}", f"arg{i}", "x", ""]) if rng.random() < 0.9 else "" for i in range(nparams)]
    # avoid duplicate non-empty names (they would legitimately share --array-lengths entries)
    seen = set()
    for i, n in enumerate(names):
        if n and n in seen:
            names[i] = f"{n}{i}"
        seen.add(names[i])
    cfg = {}
    cfg["default_array_lengths"] = rng.choice([[0, 1, 2], [1], [0, 2], [3, 1], [0, 1]])
    cfg["default_bytes_lengths"] = rng.choice([[0, 65, 1024]] + 3 * [[0, 1, 32], [33], [31, 64], [0, 32, 65]])
    cfg["loop"] = rng.choice([2, 3])
    return types, names, cfg


def evaluate(cd, subs):
    u = cd.unwrap()
    if isinstance(u, bytes):
        return u
    e = z3.simplify(z3.substitute(u, *subs))
    assert z3.is_bv_value(e), "calldata did not evaluate"
    return e.as_long().to_bytes(e.size() // 8, "big")


def free_symbols(term):
    out = {}
    stack = [term]
    seen = set()
    while stack:
        t = stack.pop()
        if t.get_id() in seen:
            continue
        seen.add(t.get_id())
        if z3.is_const(t) and t.decl().kind() == z3.Z3_OP_UNINTERPRETED:
            out[t.decl().name()] = t
        else:
            stack.extend(t.children())
    return out


def flatten(v, acc):
    if isinstance(v, list):
        for x in v:
            flatten(x, acc)
    else:
        acc.append(v)
    return acc


def check_signature(types, names, cfg, rng, res):
    fname = "f"
    sig = abi.signature(fname, types)
    item = {"type": "function", "name": fname, "inputs": [abi.json_param(n, t) for n, t in zip(names, types)], "outputs": [], "stateMutability": "nonpayable"}
    sel = abi.selector(sig)
    args = default_config().with_overrides(ConfigSource.command_line, array_lengths={}, **cfg)
    res["counters"]["evaluations"] += 1
    wit = dict(signature=sig, names=names, config={k: str(v) for k, v in cfg.items()})
    try:
        cd, dyn = mk_calldata({sig: item}, FunctionInfo("T", fname, sig, sel.hex()), args)
    except Exception as e:
        res["violations"].append(dict(what=f"mk_calldata raised {type(e).__name__} on a supported signature", key="raise-supported", exc=repr(e)[:300], **wit))
        return
    u = cd.unwrap()
    if isinstance(u, bytes):
        syms = {}
    else:
        syms = free_symbols(u)
    size_syms = {d.size_symbol.decl().name(): d for d in dyn}
    leaf_syms = {n: s for n, s in syms.items() if n not in size_syms}
    res["counters"]["dynamic_params"] += len(dyn)
    res["counters"]["leaf_symbols"] += len(leaf_syms)
    # (3a) distinct symbols: every dyn param has its own size symbol
    if len(size_syms) != len(dyn):
        res["violations"].append(dict(what="two dynamic parameters share one size symbol", key="shared-size-symbol", dyn=[str(d) for d in dyn], **wit))
        return
    # expected number of dynamic-length nodes for the *maximal* sizes equals len(dyn): checked through decoding below
    choices = [d.size_choices for d in dyn]
    for d in dyn:
        if not d.size_choices:
            res["violations"].append(dict(what="empty candidate list", key="empty-candidates", **wit))
            return
    combos = list(itertools.product(*choices)) if choices else [()]
    if len(combos) > 12:
        res["counters"]["size_tuples_sampled_cases"] += 1
        combos = rng.sample(combos, 12)
    # head checks
    if len(cd) < 4 or evaluate(cd.slice(0, 4), []) != sel:
        res["violations"].append(dict(what="wrong selector", key="selector", **wit))
        return
    nontrivial = bool(dyn)
    for combo in combos:
        subs = []
        chosen = {}
        for d, c in zip(dyn, combo):
            subs.append((d.size_symbol, z3.BitVecVal(c, 256)))
            chosen[d.name] = c
        leaf_vals = {}
        for n, s in leaf_syms.items():
            v = rng.getrandbits(s.size())
            leaf_vals[n] = v
            subs.append((s, z3.BitVecVal(v, s.size())))
        data = evaluate(cd, subs)
        res["counters"]["size_tuples_decoded"] += 1
        events = []
        try:
            dec = abi.decode_tuple(types, data[4:], 0, events, [n if n else "" for n in names] if False else None)
        except abi.DecodeError as e:
            res["violations"].append(dict(what="calldata is not a decodable ABI encoding for its signature", key="undecodable", error=str(e), sizes=chosen, data=data.hex()[:600], **wit))
            return
        # (2) lengths met == chosen lengths of the *reachable* dynamic params, in halmos' naming scheme
        met = []
        for p, kind, n in events:
            met.append(n)
        # reachable dyn params: replay halmos' naming against the decoder's traversal order.  Both traverse
        # depth-first in declaration order, but halmos lists *all* potential nodes (max sizes) while the decoder
        # only meets those inside the chosen lengths.  Compare as multisets keyed by traversal: walk the type tree.
        expect = []
        it = iter(zip(dyn, combo))
        naming = []

        def walk(t, name, reachable):
            k = t[0]
            if k in ("bytes", "string"):
                d, c = next(it)
                if d.name != name:
                    naming.append((d.name, name))
                if reachable:
                    expect.append(c)
            elif k == "array":
                if t[2] is None:
                    d, c = next(it)
                    if d.name != name:
                        naming.append((d.name, name))
                    if reachable:
                        expect.append(c)
                    for i in range(max(d.size_choices)):
                        walk(t[1], f"{name}[{i}]", reachable and i < c)
                else:
                    for i in range(t[2]):
                        walk(t[1], f"{name}[{i}]", reachable)
            elif k == "tuple":
                pre = f"{name}." if name else ""
                for i, x in enumerate(t[1]):
                    walk(x, f"{pre}f{i}", reachable)

        try:
            for n, t in zip(names, types):
                walk(t, n, True)
            leftover = list(it)
        except StopIteration:
            res["violations"].append(dict(what="fewer dynamic parameters reported than the signature has", key="dyn-missing", dyn=[d.name for d in dyn], **wit))
            return
        if leftover or naming:
            res["violations"].append(dict(what="dyn_params do not line up with the dynamic nodes of the signature (count / naming)", key="dyn-naming",
                                          leftover=[d.name for d, _ in leftover], naming=naming[:5], dyn=[d.name for d in dyn], **wit))
            return
        if met != expect:
            res["violations"].append(dict(what="decoded lengths differ from the chosen size candidates", key="lengths", met=met, expect=expect, sizes=chosen, **wit))
            return
        # (3b) perturbation: change one leaf symbol -> exactly one decoded leaf changes (and only inside it)
        flat0 = flatten(dec, [])
        for n in rng.sample(sorted(leaf_syms), min(2 if combo is combos[0] or rng.random() < 0.25 else 0, len(leaf_syms))):
            s = leaf_syms[n]
            subs2 = [(a, b) for a, b in subs if not a.eq(s)] + [(s, z3.BitVecVal(leaf_vals[n] ^ ((1 << s.size()) - 1), s.size()))]
            data2 = evaluate(cd, subs2)
            try:
                dec2 = abi.decode_tuple(types, data2[4:], 0)
            except abi.DecodeError as e:
                res["violations"].append(dict(what="perturbing a leaf symbol breaks the encoding", key="perturb-undecodable", symbol=n, **wit))
                return
            flat2 = flatten(dec2, [])
            diff = [i for i, (a, b) in enumerate(zip(flat0, flat2)) if a != b]
            res["counters"]["perturbations"] += 1
            if len(flat0) != len(flat2) or len(diff) > 1:
                res["violations"].append(dict(what="one leaf symbol influences more than one decoded leaf (leaves are not independent)", key="leaf-dependence", symbol=n, changed=len(diff), **wit))
                return
            if len(diff) == 0:
                # the symbol may lie entirely outside the chosen lengths (unused element): fine
                res["counters"]["perturbation_outside_chosen_lengths"] += 1
        # (4) generality: every word-typed decoded leaf takes the full 256-bit value of its symbol (no masking);
        # number of decoded leaves must not exceed the number of symbols available
        nleaf_words = len([x for x in flat0 if isinstance(x, int)])
        res["counters"]["decoded_leaves"] += len(flat0)
    if nontrivial:
        res["distinct"].append(sig + "|" + json.dumps({k: str(v) for k, v in cfg.items()}, sort_keys=True))
    res["features"]["depth:%d" % max_depth(types)] += 1
    # (3c) no path constraint: mk_calldata has no access to a path; size symbols are only *candidates*
    return cd, dyn


def max_depth(types):
    def d(t):
        if t[0] == "array":
            return 1 + d(t[1])
        if t[0] == "tuple":
            return 1 + max([d(x) for x in t[1]] or [0])
        return 0
    return max(d(t) for t in types)


# --------------------------------------------------------------------------- (5) candidates explored
def check_candidates_explored(rng, res):
    """top-level dynamic params only: reader program returns every length word"""
    from asm import asm
    from halmos.__main__ import mk_block, mk_solver
    from halmos.bytevec import ByteVec
    from halmos.sevm import SEVM, CallContext, Contract, Message, Path
    from halmos.utils import EVM as OPC

    n = rng.randrange(1, 4)
    types = []
    for _ in range(n):
        k = rng.random()
        types.append(("bytes",) if k < 0.35 else ("array", ("uint", 256), None) if k < 0.8 else ("uint", 256))
    if not any(t[0] in ("bytes", "array") for t in types):
        types[0] = ("bytes",)
    names = [f"p{i}" for i in range(n)]
    lens = {}
    for nm, t in zip(names, types):
        if t[0] != "uint" and rng.random() < 0.7:
            lens[nm] = sorted(rng.sample([0, 1, 2, 3, 5, 33, 65], rng.randrange(1, 4)))
    cfg = dict(default_array_lengths=rng.choice([[0, 1, 2], [1, 3]]), default_bytes_lengths=rng.choice([[0, 32, 65], [1, 33]]), array_lengths=lens)
    sig = abi.signature("f", types)
    item = {"type": "function", "name": "f", "inputs": [abi.json_param(nm, t) for nm, t in zip(names, types)], "outputs": [], "stateMutability": "nonpayable"}
    args = default_config().with_overrides(ConfigSource.command_line, **cfg)
    cd, dyn = mk_calldata({sig: item}, FunctionInfo("T", "f", sig, abi.selector(sig).hex()), args)
    toks = []
    k = 0
    for i, t in enumerate(types):
        if t[0] == "uint":
            continue
        toks += [4 + 32 * i, "CALLDATALOAD", 4, "ADD", "CALLDATALOAD", 0x200 + 32 * k, "MSTORE"]
        k += 1
    toks += [32 * k, 0x200, "RETURN"]
    code = Contract(asm(toks))
    sv = SEVM(args, FunctionInfo("T", "f", sig, abi.selector(sig).hex()))
    path = Path(mk_solver(args))
    path.process_dyn_params(dyn)
    this = z3.BitVecVal(0x1000, 160)
    msg = Message(target=this, caller=z3.BitVecVal(0x2000, 160), origin=z3.BitVecVal(0x2000, 160), value=z3.BitVecVal(0, 256), data=cd, call_scheme=OPC.CALL)
    ex = sv.mk_exec(code={this: code}, storage={this: sv.mk_storagedata()}, transient_storage={this: sv.mk_storagedata()},
                    balance=z3.Array("balance_0", z3.BitVecSort(160), z3.BitVecSort(256)), block=mk_block(), context=CallContext(msg), pgm=code, path=path)
    got = set()
    for e in sv.run(ex):
        o = e.context.output
        if o.error is not None or o.data is None:
            res["violations"].append(dict(what="length reader program failed", key="reader-failed", signature=sig, error=str(o.error)))
            return
        d = o.data.unwrap()
        if not isinstance(d, bytes):
            d = z3.simplify(d)
            if not z3.is_bv_value(d):
                res["violations"].append(dict(what="a length word stayed symbolic after candidate branching", key="length-symbolic", signature=sig, out=str(d)[:200]))
                return
            d = d.as_long().to_bytes(d.size() // 8, "big")
        got.add(tuple(int.from_bytes(d[i : i + 32], "big") for i in range(0, len(d), 32)))
    want_lists = []
    for nm, t in zip(names, types):
        if t[0] == "uint":
            continue
        want_lists.append(lens.get(nm) or (cfg["default_array_lengths"] if t[0] == "array" else cfg["default_bytes_lengths"]))
    want = set(itertools.product(*want_lists))
    res["counters"]["candidate_products_checked"] += 1
    res["counters"]["candidate_tuples_explored"] += len(got)
    res["counters"]["evaluations"] += 1
    if got != want:
        res["violations"].append(dict(what="the explored length tuples differ from the product of the configured candidates", key="candidates", signature=sig,
                                      config={k: str(v) for k, v in cfg.items()}, missing=sorted(want - got)[:10], extra=sorted(got - want)[:10]))
    else:
        res["distinct"].append("cand:" + sig + str(sorted(want)))


UNSUPPORTED = ["fixed128x18", "ufixed64x2", "function", "fixed", "mapping(uint256=>uint256)", "uint256[][x]", "ufixed128x18[]"]


def check_unsupported(rng, res):
    for typ in UNSUPPORTED:
        item = {"type": "function", "name": "f", "inputs": [{"name": "a", "type": typ, "internalType": typ}], "outputs": [], "stateMutability": "nonpayable"}
        sig = f"f({typ})"
        args = default_config()
        res["counters"]["unsupported_types_tried"] += 1
        res["counters"]["evaluations"] += 1
        try:
            cd, dyn = mk_calldata({sig: item}, FunctionInfo("T", "f", sig, "00000000"), args)
        except Exception:
            res["counters"]["unsupported_types_rejected"] += 1
            continue
        res["violations"].append(dict(what=f"unsupported type '{typ}' was encoded instead of rejected", key="unsupported:" + typ, length=len(cd)))


def worker(task):
    _imports()
    kind, lo, hi, seed = task
    res = new_result()
    for idx in range(lo, hi):
        rng = random.Random(f"c12-{seed}-{kind}-{idx}")
        if kind == "sig":
            types, names, cfg = make_case(rng)
            out = check_signature(types, names, cfg, rng, res)
            if idx % 211 == 0:
                res["samples"].append(dict(signature=abi.signature("f", types), names=names, config={k: str(v) for k, v in cfg.items()}))
        elif kind == "cand":
            check_candidates_explored(rng, res)
    for v in res["violations"]:
        v["seed_index"] = [kind, idx]
    return res


def main():
    run = Run("C12", "exploration")
    _imports()
    selftest_oracle()
    run.rule = ("random ABI type trees (depth <= 3, arity <= 3) over {uintN,intN,address,bool,bytesN,bytes,string,T[],T[k],tuples} x candidate-length configurations; every size tuple "
                "(<= 12 per signature, sampled beyond) decoded by an independent ABI decoder; non-trivial = distinct (signature, configuration) with at least one dynamic parameter, or a distinct candidate product")
    run.assumptions = ["independent ABI codec in lib/abi.py (validated on the vectors of the ABI specification)", "decoder follows offsets (canonical/tight layout is not demanded: halmos documents a generalized encoding)"]
    if run.replay:
        w = json.load(open(run.replay))["witness"]
        res = new_result()
        kind, idx = w["seed_index"]
        rng = random.Random(f"c12-{run.seed}-{kind}-{idx}")
        if kind == "sig":
            types, names, cfg = make_case(rng)
            check_signature(types, names, cfg, rng, res)
        else:
            check_candidates_explored(rng, res)
        run.merge(res)
        run.finish()
    res = new_result()
    check_unsupported(random.Random(run.seed), res)
    run.merge(res)
    n = run.n(1600, 60000)
    tasks = [("sig", lo, min(n, lo + 40), run.seed) for lo in range(0, n, 40)]
    m = run.n(160, 3000)
    tasks += [("cand", lo, min(m, lo + 8), run.seed) for lo in range(0, m, 8)]
    run_pool(run, worker, tasks, soft_timeout=240)
    run.require("size_tuples_decoded", 3000)
    run.require("perturbations", 1000)
    run.require("candidate_products_checked", 50)
    run.require("unsupported_types_rejected", 3)
    run.finish()


if __name__ == "__main__":
    main()
