"""C03 — PASS means no admissible input violates the test (end to end).

Generated test contracts (lib/testgen.py) are run through halmos.__main__.run_contract with each solver
available offline (yices default, z3), both storage layouts and several --panic-error-codes settings.
A test reported PASS without any warning is judged against concrete replays (planted solutions of the
guards, boundary and random arguments, every configured length for dynamic parameters) on the reference
EVM with the Foundry cheatcode layer: a failing replay under a clean PASS is a violation."""

import json
import random

import report
from report import Run, new_result, run_pool


def _imports():
    global A, testgen, e2e
    import artifacts as A
    import e2e
    import testgen


PANIC_CFGS = [({1}, "0x01"), ({1}, "0x01"), ({0x11, 0x32}, "0x11,0x32"), (set(), "*")]


def case(seed, idx, res, tier):
    rng = random.Random(f"c03-{seed}-{idx}")
    spec, setup, tests = testgen.gen_contract(rng, 3, force_first=testgen.ALL_KINDS[idx % len(testgen.ALL_KINDS)])
    solver = "z3" if rng.random() < 0.12 else "yices"
    layout = rng.choice(["solidity", "solidity", "generic"])
    codes, codes_str = rng.choice(PANIC_CFGS)
    loop = rng.choice([2, 2, 3, 5])
    ov = dict(solver=solver, storage_layout=layout, panic_error_codes=set(codes), loop=loop)
    if rng.random() < 0.3:
        ov["cache_solver"] = True
        ov["solver_threads"] = rng.choice([1, 1, 4])
        res["features"]["cache_solver"] += 1
    if rng.random() < 0.3:
        ov["default_array_lengths"] = rng.choice([[0, 1, 2], [0, 1, 2, 3], [2], [2, 1, 0]])
    if rng.random() < 0.3:
        ov["default_bytes_lengths"] = rng.choice([[0, 65], [65], [0, 32, 65, 1024]])
    res["features"][f"solver:{solver}"] += 1
    res["features"][f"layout:{layout}"] += 1
    res["features"][f"panic-codes:{codes_str}"] += 1
    out, _ = e2e.run_contract_case(rng, spec, setup, tests, overrides=ov)
    res["counters"]["contracts"] += 1
    if out.exception or len(out.results) != len(tests):
        res["counters"]["run_contract_failed"] += 1
        res["inconclusive"].append(f"run_contract did not return results: {(out.exception or '')[-200:]}") if out.exception else None
        return
    warns = out.warnings()
    for t, r in zip(tests, out.results):
        res["counters"]["evaluations"] += 1
        res["counters"]["tests"] += 1
        res["features"][f"verdict:{r.exitcode}"] += 1
        for f in t.features:
            res["features"]["gen:" + f] += 1
        bnd = e2e.mk_bounds(ov)
        in_bounds = any(all(e2e.within_bounds(ty, v, n, bnd) for (n, ty), v in zip(t.fn.params, p)) for p in t.planted)
        reachable = in_bounds and t.can_fail and ((t.failure.startswith("panic") and (not codes or int(t.failure[5:], 16) in codes)) or not t.failure.startswith("panic"))
        if reachable:
            res["distinct"].append(f"{idx}:{t.fn.sig}:{t.kind}")
            res["counters"]["tests_with_reachable_failure"] += 1
        mywarn = [w for w in warns if t.fn.sig in w or t.fn.name in w]
        if r.exitcode != 0:
            continue
        if mywarn or (r.num_bounded_loops or 0) > 0:
            res["counters"]["pass_with_warning_excused"] += 1
            continue
        res["counters"]["clean_pass"] += 1
        lengths = None
        w = e2e.judge_pass(rng, spec, setup, t, codes, res, nrand=4 if tier == "quick" else 12, lengths=lengths, overrides=ov)
        if w is not None:
            res["violations"].append(dict(what="PASS without warning although a concrete admissible input makes the test fail", key=f"pass:{t.kind}:{t.failure}", index=idx,
                                          test=t.fn.sig, kind=t.kind, failure=t.failure, config={k: str(v) for k, v in ov.items()}, failing_input=w, runtime=spec.runtime().hex()))
    if idx % 37 == 0:
        res["samples"].append(dict(index=idx, tests=[dict(sig=t.fn.sig, kind=t.kind, failure=t.failure) for t in tests], verdicts=[r.exitcode for r in out.results], config={k: str(v) for k, v in ov.items()}))


def worker(task):
    _imports()
    lo, hi, seed, tier = task
    res = new_result()
    for idx in range(lo, hi):
        case(seed, idx, res, tier)
    return res


def main():
    run = Run("C03", "exploration")
    _imports()
    run.rule = ("generated test contracts (setUp + 3 check_* functions from a grammar of 19 guard kinds x 6 failure kinds) x {yices, z3} x {solidity, generic} x panic-code sets; "
                "non-trivial = distinct test function whose failure is reachable by construction under the configured panic codes (a wrong PASS is possible)")
    run.assumptions = ["reference EVM + Foundry layer; hand-assembled artifacts (no solc offline)", "a PASS accompanied by a loop-bound / incompleteness warning is excused (C10 covers it)"]
    if run.replay:
        w = json.load(open(run.replay))["witness"]
        res = new_result()
        case(run.seed if "seed" not in w else w["seed"], w["index"], res, run.tier)
        run.merge(res)
        run.finish()
    n = run.n(110, 3000)
    tasks = [(lo, min(n, lo + 3), run.seed, run.tier) for lo in range(0, n, 3)]
    run_pool(run, worker, tasks, soft_timeout=900)
    run.require("tests", 150)
    run.require("clean_pass", 10)
    run.require("tests_with_reachable_failure", 100)
    run.require("replays", 50)
    run.finish()


if __name__ == "__main__":
    main()
