#!/bin/sh
# Scripted stand-in for an SMT solver (fast to start: plain sh), used as --solver-command "<this> <scriptdir>".
# For a query file <q> with basename B the reply kind is read from <scriptdir>/B.kind (fallback default.kind),
# an optional delay from B.delay, the value for p_x_* from B.val.  Every invocation is appended to <scriptdir>/log;
# if <scriptdir>/cap exists the query text is copied there (calibration).
dir="$1"; q="$2"; base=$(basename "$q"); fdir=$(basename "$(dirname "$q")")
kind=$(cat "$dir/$base.kind" 2>/dev/null || cat "$dir/default.kind" 2>/dev/null || echo unknown)
delay=$(cat "$dir/$base.delay" 2>/dev/null || echo 0)
echo "$fdir/$base $kind" >> "$dir/log"
[ -d "$dir/cap" ] && cp "$q" "$dir/cap/${fdir}__$base"
[ "$delay" != "0" ] && sleep "$delay"
# firstnocore: the first query of this script directory is answered `unsat` with an EMPTY core "()", every later one `sat`
if [ "$kind" = firstnocore ]; then
  if [ "$(wc -l < "$dir/log")" -le 1 ]; then kind=unsatnocore; else kind=sat; fi
fi
case "$kind" in
  sat|satabs)
    val=$(cat "$dir/$base.val" 2>/dev/null || echo 0)
    printf 'sat\n(\n'
    for name in $(grep -o '\(p_\|halmos_\)[A-Za-z0-9_.]*_[0-9a-f]\{7\}_[0-9]*' "$q" | sort -u); do
      case "$name" in p_x_*) v=$val;; *) v=0;; esac
      printf ' (define-fun |%s| () (_ BitVec 256) #x%064x)\n' "$name" "$v"
    done
    [ "$kind" = satabs ] && printf ' (define-fun f_evm_bvudiv_256 ((x!0 (_ BitVec 256)) (x!1 (_ BitVec 256))) (_ BitVec 256) #x%064x)\n' 0
    printf ')\n';;
  unsat|unsaterr)
    printf 'unsat\n'
    [ "$kind" = unsaterr ] && printf '(error "model is not available")\n'
    if grep -q produce-unsat-cores "$q"; then
      ids=$(grep -o ':named <[0-9]*>' "$q" | sed 's/:named //' | tr '\n' ' ')
      printf '(%s)\n' "$ids"
    fi
    [ "$kind" = unsaterr ] && exit 1;;
  unsatnocore) printf 'unsat\n()\n';;
  unsatcore) printf 'unsat\n(%s)\n' "$(cat "$dir/$base.core" 2>/dev/null)";;   # unsat with the core given in <base>.core
  unknown) printf 'unknown\n';;
  timeout) sleep "$(cat "$dir/timeout.sleep" 2>/dev/null || echo 3)"; printf 'unsat\n';;
  garbage) printf 'Segmentation fault (core dumped) lol\n';;
  binary) printf 'sat\n\377\376\200(model\n';;   # output that is not valid UTF-8: the solving thread fails with an exception
  satbadmodel) printf 'sat\n(\n (define-fun |p_x_uint256_0000000_00| () (_ BitVec 256) #xZZ)\n';;  # sat, but the model cannot be parsed
  empty) ;;
  exit3) exit 3;;
  kill) kill -9 $$;;
esac
exit 0
