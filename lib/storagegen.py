"""C08 workload: sequences of SSTORE/SLOAD/TSTORE/TLOAD over Solidity-style location expressions.

Logical locations (scalar, mapping, nested mapping, dynamic array element, struct field, packed
key) are each written in several syntactic ways: runtime SHA3 of concrete or symbolic data,
PUSH32 of the precomputed hash constant (+ offset), constant-folded base+offset, reordered
additions.  Keys and indices are symbolic and evaluated over small *colliding* domains so that
syntactically different locations coincide under some valuations and not under others.  Base
slots are additionally chosen so that keccak(slot) lies within a few units of a 2^16 boundary
(the bucket size of halmos' reverse hash lookup)."""

from __future__ import annotations

from eth_hash.auto import keccak

from asm import asm
from diffcore import Case, Input

M = (1 << 256) - 1
KEY_DOM = [0, 1, 2, 0xA11CE00000000000000000000000000000001001]  # the last one: a key whose hash is in none of halmos' precomputed tables
IDX_DOM = [0, 1, 2, 2**16 - 1, 2**16, 2**16 + 1]


def H(*words):
    return int.from_bytes(keccak(b"".join(w.to_bytes(32, "big") for w in words)), "big")


def Hbytes(b):
    return int.from_bytes(keccak(b), "big")


_boundary = None


def boundary_slots():
    """slots s with keccak(s) mod 2^16 within 3 of a bucket boundary (searched once)"""
    global _boundary
    if _boundary is None:
        out = []
        s = 6
        while len(out) < 6 and s < 400000:
            lo = H(s) & 0xFFFF
            if lo <= 2 or lo >= 0xFFFD:
                out.append(s)
            s += 1
        _boundary = out
    return _boundary


class LocGen:
    def __init__(self, rng, ncd=3, layout="solidity"):
        self.r = rng
        self.features = set()
        self.layout = layout
        self.hashed = set()  # data tuples hashed at runtime so far (in program order)

    def const_ok(self, *words):
        """may the precomputed constant keccak(words) be used here?  Only inside halmos' documented
        built-in table (keccak(s), s < 256; keccak(k . s), k < 2, s < 256) or after the same data was hashed
        at runtime earlier in the program (otherwise: known finding, probed separately)"""
        if words in self.hashed:
            return True
        if len(words) == 1:
            return words[0] < 256
        if len(words) == 2:
            return words[0] < 2 and words[1] < 256
        return False

    def keyref(self, kind="key"):
        r = self.r
        if kind == "key":
            return ("cd", r.choice([0, 1])) if r.random() < 0.7 else ("const", r.choice(KEY_DOM))
        if kind == "smallkey":  # nested-array indices: small constants only (see the note on concrete indices below)
            return ("cd", r.choice([0, 1])) if r.random() < 0.7 else ("const", r.choice(KEY_DOM[:3]))
        # concrete indices stay below 2^16 - 3: halmos' reverse hash lookup only recognises hash + delta for
        # |delta| < 2^16 (known finding, probed separately); symbolic indices range over the whole domain
        if r.random() < 0.65:
            return ("cd", 2) if r.random() < 0.7 else ("cd", 1)
        return ("const", r.choice([0, 1, 2, 2**16 - 4, 2**16 - 3]))

    def slot(self):
        r = self.r
        if r.random() < 0.35:
            self.features.add("boundary-slot")
            return r.choice(boundary_slots())
        return r.randrange(0, 4)

    def logical(self):
        r = self.r
        k = r.random()
        if k < 0.12:
            return ("scalar", r.randrange(0, 4))
        if k < 0.35:
            return ("map", self.slot(), self.keyref())
        if k < 0.47:
            return ("map2", self.slot(), self.keyref(), self.keyref())
        if k < 0.75:
            # offset -1 models a[n-1] (solc folds it into the constant (keccak(slot)-1) + n)
            offs = [0, 0, 1, 2, -1, -1] if self.layout == "solidity" else [0, 0, 1, 2]
            return ("arr", self.slot(), self.keyref("idx"), r.choice(offs))
        if k < 0.84:
            return ("mapstruct", self.slot(), self.keyref(), r.choice([1, 2]))
        if k < 0.92:
            # a[i][j] of a nested dynamic array: keccak(keccak(slot) + i) + j ; small slots / indices so that it can meet a mapping cell m[k]
            # in the decoded (generic-layout) index space: k == slot(a), slot(m) == i, j == 0
            return ("arr2", r.randrange(0, 3), self.keyref("smallkey"), self.keyref("smallkey"))
        # packed keys are always symbolic here: halmos decodes keccak(bytesN(key) . slot) as a mapping only when the
        # pre-image still is a concat term; a concrete key folds to a constant and is treated as an unrelated scalar
        # slot (known finding, probed separately)
        return ("packed", self.slot(), ("cd", self.r.choice([0, 1])))

    # ---- token builders
    def ref(self, kr):
        return [4 + 32 * kr[1], "CALLDATALOAD"] if kr[0] == "cd" else [kr[1]]

    def hash2(self, a, b):
        return a + [0x00, "MSTORE"] + b + [0x20, "MSTORE", 0x40, 0x00, "SHA3"]

    def hash1(self, a):
        return a + [0x00, "MSTORE", 0x20, 0x00, "SHA3"]

    def tokens(self, loc):
        """one syntactic variant (chosen at random) of the logical location"""
        r = self.r
        kind = loc[0]
        if kind == "scalar":
            self.features.add("shape:scalar")
            return [loc[1]]
        if kind == "map":
            _, s, k = loc
            self.features.add("shape:mapping")
            if k[0] == "const" and r.random() < 0.5 and self.const_ok(k[1], s):
                self.features.add("way:precomputed-constant")
                return [("push", H(k[1], s), 32)]
            self.features.add("way:runtime-sha3")
            if k[0] == "const":
                self.hashed.add((k[1], s))
            return self.hash2(self.ref(k), [s])
        if kind == "map2":
            _, s, k1, k2 = loc
            self.features.add("shape:nested-mapping")
            if k1[0] == "const" and k2[0] == "const" and r.random() < 0.4 and self.const_ok(k2[1], H(k1[1], s)):
                self.features.add("way:precomputed-constant")
                return [("push", H(k2[1], H(k1[1], s)), 32)]
            if k1[0] == "const" and r.random() < 0.4 and self.const_ok(k1[1], s):
                inner = [("push", H(k1[1], s), 32)]
                self.features.add("way:precomputed-inner")
            else:
                inner = self.hash2(self.ref(k1), [s])
                if k1[0] == "const":
                    self.hashed.add((k1[1], s))
                    if k2[0] == "const":
                        self.hashed.add((k2[1], H(k1[1], s)))
            # outer = keccak(k2 . inner): inner must be computed first, kept on the stack
            return inner + self.ref(k2) + [0x00, "MSTORE", 0x20, "MSTORE", 0x40, 0x00, "SHA3"]
        if kind in ("arr", "mapstruct"):
            if kind == "arr":
                _, s, i, c = loc
                self.features.add("shape:array")
                base_rt = self.hash1([s])
                base_c = H(s)
                idx = self.ref(i)
            else:
                _, s, k, c = loc
                self.features.add("shape:mapping-struct")
                base_rt = self.hash2(self.ref(k), [s])
                base_c = H(k[1], s) if k[0] == "const" else None
                idx = None
            way = r.random()
            parts = []  # list of token lists to be summed
            words = (s,) if kind == "arr" else ((k[1], s) if k[0] == "const" else None)
            if base_c is not None and way < 0.45 and words is not None and self.const_ok(*words):
                self.features.add("way:precomputed-constant")
                folds = [0, c, -1] if self.layout == "solidity" else [0, max(c, 0)]
                fold = r.choice(folds) if r.random() < 0.6 else 0
                if c < 0:
                    fold = c  # a[n-1]: the negative offset is folded into the constant, nothing else is added
                if fold:
                    self.features.add("way:constant-folded-base+offset")
                parts.append([("push", (base_c + fold) & M, 32)])
                rest = c - fold
            else:
                self.features.add("way:runtime-sha3")
                parts.append(base_rt)
                if words is not None:
                    self.hashed.add(words)
                rest = c
            if idx is not None:
                parts.append(idx)
            if rest > 0:
                if rest > 1 and r.random() < 0.5:
                    parts.append([1])
                    parts.append([rest - 1])
                else:
                    parts.append([rest])
            elif rest < 0:
                parts.append([(rest) & M])
            if len(parts) > 1 and r.random() < 0.6:
                r.shuffle(parts)
                self.features.add("way:reordered-additions")
            # the runtime hash clobbers scratch memory but leaves only its result on the stack, so
            # any evaluation order is fine; sum left to right or right-nested
            toks = list(parts[0])
            if r.random() < 0.5 or len(parts) < 3:
                for p in parts[1:]:
                    toks += p + ["ADD"]
            else:
                toks = list(parts[0]) + list(parts[1])
                for p in parts[2:]:
                    toks += p
                toks += ["ADD"] * (len(parts) - 1)
            return toks
        if kind == "arr2":
            _, s, i, j = loc
            self.features.add("shape:nested-array")
            self.features.add("way:runtime-sha3")
            self.hashed.add((s,))
            return self.hash1([s]) + self.ref(i) + ["ADD", 0x00, "MSTORE", 0x20, 0x00, "SHA3"] + self.ref(j) + ["ADD"]
        if kind == "packed":
            _, s, k = loc
            self.features.add("shape:packed-key")
            # keccak( bytes20(key) . slot ) : 52 bytes
            if k[0] == "const" and r.random() < 0.4 and ("packed", k[1], s) in self.hashed:
                self.features.add("way:precomputed-constant")
                return [("push", Hbytes((k[1] & ((1 << 160) - 1)).to_bytes(20, "big") + s.to_bytes(32, "big")), 32)]
            if k[0] == "const":
                self.hashed.add(("packed", k[1], s))
            return self.ref(k) + [96, "SHL", 0x00, "MSTORE", s, 20, "MSTORE", 52, 0x00, "SHA3"]
        raise ValueError(loc)


def make_storage_case(rng, transient=False, overrides=None):
    g = LocGen(rng, layout=(overrides or {}).get("storage_layout", "solidity"))
    nloc = rng.randrange(2, 5)
    locs = [g.logical() for _ in range(nloc)]
    # make collisions likely: duplicate a location with another key reference of the same shape
    if rng.random() < 0.6:
        l0 = rng.choice(locs)
        if l0[0] == "map":
            # the same mapping through a symbolic key and through a constant key (hashed at run time from concrete data)
            other = ("const", rng.choice([KEY_DOM[-1], KEY_DOM[-1], 1])) if l0[2][0] == "cd" and rng.random() < 0.6 else g.keyref()
            locs.append(("map", l0[1], other))
        elif l0[0] == "arr":
            locs.append(("arr", l0[1], g.keyref("idx"), rng.choice([0, 1] + ([-1] if g.layout == "solidity" else []))))
        elif l0[0] == "mapstruct":
            locs.append(("map", l0[1], l0[2]))
        elif l0[0] == "map2":
            locs.append(("map2", l0[1], g.keyref(), g.keyref()))
        elif l0[0] == "arr2":
            locs.append(("map", rng.choice(KEY_DOM[:3]), g.keyref()))
            locs.append(("arr2", l0[1], g.keyref("smallkey"), g.keyref("smallkey")))
    # distinct Solidity variables have distinct slots: halmos' decoder (like solc) assumes one type per slot, so a nested array never
    # shares its base slot with a mapping / array / scalar
    a2 = {l[1] for l in locs if l[0] == "arr2"}
    if a2:
        free = [x for x in range(0, 6) if x not in a2]
        locs = [l if l[0] == "arr2" or l[1] not in a2 else (l[0], rng.choice(free)) + tuple(l[2:]) for l in locs]
    toks = []
    nout = 0
    ST, LD = ("TSTORE", "TLOAD") if transient else ("SSTORE", "SLOAD")
    if rng.random() < 0.35:
        # a symbolic fork before any hash has been computed, both sides continuing with the same code: the second path explored hashes
        # the same (concrete) preimages for the first time again — whatever the first path registered must not be missing or stale on it
        toks += [68, "CALLDATALOAD", 1, "AND", "@forked", "JUMPI", ":forked"]  # bit 0 of the index word: both values occur in the input domain
        g.features.add("fork-before-first-hash")
    if rng.random() < 0.3:
        # an early, discarded read through a hard-coded constant keccak(slot) + d of an array whose hash has not been computed yet on this path
        # (unrecognised at that moment: it reads the untouched scalar slot, 0); once the hash has been computed at run time, the very same
        # constant must be recognised as an element of the array
        big = rng.choice([0x100, 0x123, 0x1000])
        d = rng.choice([1, 2, 3])
        toks += [("push", (H(big) + d) & M, 32), LD, "POP"]
        g.features.add("early-probe-of-unhashed-constant")
        locs.append(("arr", big, ("const", d), 0))
        locs.append(("arr", big, ("cd", 2), 0))
        # the first real access computes the hash at run time; later ones may use the constant (const_ok consults g.hashed)
        toks += g.hash1([big]) + ["POP"]
        g.hashed.add((big,))

    def out(t):
        nonlocal nout
        o = 0x200 + 32 * nout
        nout += 1
        return t + [o, "MSTORE"]

    nops = rng.randrange(3, 9)
    written = []
    for i in range(nops):
        loc = rng.choice(locs)
        if rng.random() < 0.5 or not written:
            val = [0x1000 + 0x111 * i] if rng.random() < 0.5 else [4 + 32 * rng.randrange(3), "CALLDATALOAD", 0x77 + i, "ADD"]
            toks += val + g.tokens(loc) + [ST]
            written.append(loc)
        else:
            toks += out(g.tokens(loc) + [LD])
    for loc in locs:
        toks += out(g.tokens(loc) + [LD])
    toks += [32 * nout, 0x200, "RETURN"]
    code = asm(toks)
    case = Case({0x1000: code}, ncd=3, overrides=overrides or {}, label="storage" + ("-transient" if transient else ""),
                gen_features=sorted(g.features), second_tx=(0x1000, 3) if transient and rng.random() < 0.5 else None)
    case.locs = locs
    return case


def domain_inputs(rng, case, n=10):
    out = []
    for _ in range(n):
        i = Input()
        i.cd = [rng.choice(KEY_DOM), rng.choice(KEY_DOM), rng.choice(IDX_DOM)]
        i.caller, i.origin, i.value = 0x2000, 0x2000, 0
        i.balances = {}
        i.source = "colliding-domain"
        i.cd2 = [rng.choice(KEY_DOM), rng.choice(KEY_DOM), rng.choice(IDX_DOM)] if case.second_tx else None
        i.caller2, i.origin2, i.value2 = 0x2002, 0x2002, 0
        out.append(i)
    return out


def concrete_slot(loc, cd):
    """the slot a logical location denotes under calldata valuation cd (reference computation)"""
    def val(kr):
        return cd[kr[1]] if kr[0] == "cd" else kr[1]
    kind = loc[0]
    if kind == "scalar":
        return loc[1]
    if kind == "map":
        return H(val(loc[2]), loc[1])
    if kind == "map2":
        return H(val(loc[3]), H(val(loc[2]), loc[1]))
    if kind == "arr":
        return (H(loc[1]) + val(loc[2]) + loc[3]) & M
    if kind == "arr2":
        return (H((H(loc[1]) + val(loc[2])) & M) + val(loc[3])) & M
    if kind == "mapstruct":
        return (H(val(loc[2]), loc[1]) + loc[3]) & M
    if kind == "packed":
        return Hbytes((val(loc[2]) & ((1 << 160) - 1)).to_bytes(20, "big") + loc[1].to_bytes(32, "big"))
    raise ValueError(loc)


def make_transient_pair_case(rng, overrides=None):
    """two accounts use transient (and persistent) storage at the same locations within one transaction
    (the transaction is started through SEVM.run_message as the second transaction)"""
    g = LocGen(rng, layout=(overrides or {}).get("storage_layout", "solidity"))
    loc = g.logical()
    loc2 = loc if rng.random() < 0.7 else g.logical()
    B = 0x1100
    # tokens are generated in *execution order* (caller prefix, callee, caller suffix) because the rule for using
    # precomputed constants depends on which hashes were computed earlier on the path
    a = []
    nout = 0

    def out(t):
        nonlocal nout
        o = 0x300 + 32 * nout
        nout += 1
        return t + [o, "MSTORE"]

    a += [4, "CALLDATALOAD", 0xA1, "ADD"] + g.tokens(loc) + ["TSTORE"]
    a += [4, "CALLDATALOAD", 0xA2, "ADD"] + g.tokens(loc) + ["SSTORE"]
    a += [100, 0, 0x100, "CALLDATACOPY", 0x40, 0x180, 100, 0x100, 0, B, 0xFFFF, "CALL"]
    a += [0x300 + 32 * nout, "MSTORE"]
    nout += 1
    # callee: returns its own TLOAD/SLOAD of loc2, then overwrites them
    b = []
    b += g.tokens(loc2) + ["TLOAD", 0x200, "MSTORE"]
    b += g.tokens(loc2) + ["SLOAD", 0x220, "MSTORE"]
    b += [0xB7] + g.tokens(loc2) + ["TSTORE"]
    b += [0xB8] + g.tokens(loc2) + ["SSTORE"]
    b += [0x40, 0x200, "RETURN"]
    a += out([0x180, "MLOAD"]) + out([0x1A0, "MLOAD"])
    a += out(g.tokens(loc) + ["TLOAD"]) + out(g.tokens(loc) + ["SLOAD"])
    a += [32 * nout, 0x300, "RETURN"]
    case = Case({0x1000: asm(a), B: asm(b)}, ncd=3, overrides=overrides or {}, label="transient-pair",
                gen_features=sorted(g.features | {"transient-two-accounts"}), second_tx=(0x1000, 3) if rng.random() < 0.7 else None)
    case.locs = [loc, loc2]
    return case


def make_symbolic_transient_case(rng, overrides=None):
    """svm.enableSymbolicStorage(this) makes *persistent* storage arbitrary; transient storage still starts empty in every transaction:
    reads of unwritten transient locations give 0, written ones give the last write (only transient reads are observed)"""
    import foundry
    from artifacts import call_raw

    g = LocGen(rng, layout=(overrides or {}).get("storage_layout", "solidity"))
    locs = [g.logical() for _ in range(rng.randrange(2, 4))]
    locs = [l for l in locs if l[0] in ("map", "map2", "arr", "scalar", "mapstruct")] or [("map", 1, ("cd", 0))]
    if locs[0][0] == "map":
        locs.append(("map", locs[0][1], g.keyref()))
    toks = call_raw(foundry.SVM, bytes.fromhex("dc00ba4d") + (0x1000).to_bytes(32, "big"), ret=0x900, ret_size=0) + ["POP"]
    nout = 0

    def out(t):
        nonlocal nout
        o = 0x200 + 32 * nout
        nout += 1
        return t + [o, "MSTORE"]

    for i in range(rng.randrange(2, 6)):
        loc = rng.choice(locs)
        if rng.random() < 0.5:
            val = [0x1000 + 0x111 * i] if rng.random() < 0.5 else [4 + 32 * rng.randrange(3), "CALLDATALOAD", 0x77 + i, "ADD"]
            toks += val + g.tokens(loc) + ["TSTORE"]
            if rng.random() < 0.4:
                toks += [0x55 + i] + g.tokens(loc) + ["SSTORE"]  # a persistent write at the same location must not show through
        else:
            toks += out(g.tokens(loc) + ["TLOAD"])
    for loc in locs:
        toks += out(g.tokens(loc) + ["TLOAD"])
    toks += [32 * nout, 0x200, "RETURN"]
    case = Case({0x1000: asm(toks)}, ncd=3, overrides=overrides or {}, label="symbolic-storage-transient", gen_features=sorted(g.features | {"enableSymbolicStorage"}))
    case.foundry = True
    case.default_tape = [0] * 4
    case.locs = locs
    case.slots = {0x1000: []}  # persistent storage is arbitrary here: not compared
    return case
