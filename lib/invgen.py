"""Invariant-testing artifacts: small stateful target contracts + a test contract whose setUp() CREATEs the
target(s), with invariant_* functions and the six target*/exclude* getters (hand-assembled).  Also the
brute-force oracle: breadth-first search over call sequences on the reference EVM."""

from __future__ import annotations

import itertools

import abi
import artifacts as A
import foundry
import refevm
from artifacts import Fn, arg, panic

U = ("uint", 256)
ADDR = ("address",)
TARGET0 = 0xAAAA0002  # address of the first contract CREATEd during setUp (halmos' abstract address scheme)
TARGET1 = 0xAAAA0003


def ret_word(tokens):
    return tokens + [0, "MSTORE", 32, 0, "RETURN"]


def counter_target(rng, name="Counter"):
    """c in slot 0; inc/dec/set/reset; get() view; optional guarded assertion inside a target function"""
    K = rng.choice([2, 3])
    fns = [
        Fn("inc", [], [1, 0, "SLOAD", "ADD", 0, "SSTORE", "STOP"]),
        Fn("dec", [], [0, "SLOAD", "DUP1", "ISZERO", "@z", "JUMPI", 1, "SWAP1", "SUB", 0, "SSTORE", "STOP", ":z", "STOP"]),
        Fn("add", [("x", U)], arg(0) + ["DUP1", 3, "LT", "@big", "JUMPI", 0, "SLOAD", "ADD", 0, "SSTORE", "STOP", ":big", 0, 0, "REVERT"]),  # x <= 3
        Fn("get", [], ret_word([0, "SLOAD"]), mutability="view", outputs=[U]),
    ]
    if rng.random() < 0.5:
        # assertion inside a target: Panic(1) if c == K+1 when poke() is called
        fns.append(Fn("poke", [], [0, "SLOAD", K + 1, "EQ", "@bad", "JUMPI", "STOP", ":bad"] + panic(1)))
    return A.ContractSpec(name, fns), dict(kind="counter", K=K)


def flags_target(rng, name="Flags"):
    """arm() -> a=1 ; fire() requires a==1 -> b=1 ; blow() requires b==1 -> broken=1 ; isBroken() view"""
    fns = [
        Fn("arm", [], [1, 0, "SSTORE", "STOP"]),
        Fn("fire", [], [0, "SLOAD", 1, "EQ", "ISZERO", "@no", "JUMPI", 1, 1, "SSTORE", "STOP", ":no", 0, 0, "REVERT"]),
        Fn("blow", [], [1, "SLOAD", 1, "EQ", "ISZERO", "@no", "JUMPI", 1, 2, "SSTORE", "STOP", ":no", 0, 0, "REVERT"]),
        Fn("disarm", [], [0, 0, "SSTORE", "STOP"]),
        Fn("level", [], ret_word([0, "SLOAD", 1, "SLOAD", "ADD", 2, "SLOAD", "ADD"]), mutability="view", outputs=[U]),
    ]
    return A.ContractSpec(name, fns), dict(kind="flags")


def owner_target(rng, name="Owned"):
    """slot0 = owner (constructor: CALLER); claim(secret) only by owner and only with the right argument sets slot1"""
    secret = rng.choice([7, 0x1234, 2**200 + 5])
    fns = [
        Fn("claim", [("s", U)], ["CALLER", 0, "SLOAD", "EQ", "ISZERO", "@no", "JUMPI"] + arg(0) + [secret, "EQ", "ISZERO", "@no", "JUMPI", 1, 1, "SSTORE", "STOP", ":no", 0, 0, "REVERT"]),
        Fn("open", [], ["CALLER", 0xBEEF, "EQ", "ISZERO", "@no", "JUMPI", 1, 2, "SSTORE", "STOP", ":no", 0, 0, "REVERT"]),
        Fn("state", [], ret_word([1, "SLOAD", 2, "SLOAD", 2, "MUL", "ADD"]), mutability="view", outputs=[U]),
    ]
    spec = A.ContractSpec(name, fns, ctor_prologue=["CALLER", 0, "SSTORE"])
    return spec, dict(kind="owner", secret=secret)


def loop_target(rng, name="Looper"):
    """bump(n): for i < n: c += 1 (symbolic trip count) ; get()"""
    fns = [
        Fn("bump", [("n", U)], arg(0) + [0, ":loop", "DUP2", "DUP2", "LT", "ISZERO", "@done", "JUMPI", 1, 0, "SLOAD", "ADD", 0, "SSTORE", 1, "ADD", "@loop", "JUMP", ":done", "STOP"]),
        Fn("get", [], ret_word([0, "SLOAD"]), mutability="view", outputs=[U]),
    ]
    return A.ContractSpec(name, fns), dict(kind="loop")


def abi_array_return(words):
    """tokens returning abi.encode(uint256[]/address[]) of the given constants"""
    toks = [0x20, 0, "MSTORE", len(words), 0x20, "MSTORE"]
    for i, w in enumerate(words):
        toks += [("push", w, 32), 0x40 + 32 * i, "MSTORE"]
    toks += [0x40 + 32 * len(words), 0, "RETURN"]
    return toks


def fuzz_selectors_return(entries):
    """abi.encode(FuzzSelector[]) where FuzzSelector = (address addr, bytes4[] selectors); entries: [(addr, [sel bytes])]"""
    t = ("array", ("tuple", [ADDR, ("array", ("bytesN", 4), None)]), None)
    data = abi.encode_tuple([t], [[[a, [s for s in sels]] for a, sels in entries]])
    toks = []
    padded = data + bytes((-len(data)) % 32)
    for i in range(0, len(padded), 32):
        toks += [("push", int.from_bytes(padded[i : i + 32], "big"), 32), i, "MSTORE"]
    toks += [len(data), 0, "RETURN"]
    return toks


class InvCase:
    pass


def make_invariant_case(rng, target_kind=None, filters=None, depth=None):
    kind = target_kind or rng.choice(["counter", "flags", "owner"])
    target, meta = {"counter": counter_target, "flags": flags_target, "owner": owner_target, "loop": loop_target}[kind](rng)
    init = target.creation()
    setup = []
    padded = init + bytes((-len(init)) % 32)
    for i in range(0, len(padded), 32):
        setup += [("push", int.from_bytes(padded[i : i + 32], "big"), 32), 0x400 + i, "MSTORE"]
    setup += [len(init), 0x400, 0, "CREATE", 0, "SSTORE", "STOP"]
    fns = [Fn("setUp", [], setup)]

    def call_view(fn):
        return A.call_raw(TARGET0, fn.selector, ret=0x500) + ["POP", 0x500, "MLOAD"]

    invs = []
    if kind == "counter":
        getter = [f for f in target.fns if f.name == "get"][0]
        for bound in sorted({meta["K"], rng.choice([1, 4, 7])}):
            fn = Fn(f"invariant_ne{bound}", [], call_view(getter) + [bound, "EQ", "@bad", "JUMPI", "STOP", ":bad"] + panic(1))
            invs.append((fn, dict(kind="ne", bound=bound)))
    elif kind == "flags":
        getter = [f for f in target.fns if f.name == "level"][0]
        for bound in (2, 3):
            fn = Fn(f"invariant_lt{bound}", [], call_view(getter) + [bound, "GT", "ISZERO", "@bad", "JUMPI", "STOP", ":bad"] + panic(1))  # level < bound
            invs.append((fn, dict(kind="lt", bound=bound)))
    elif kind == "owner":
        getter = [f for f in target.fns if f.name == "state"][0]
        fn = Fn("invariant_closed", [], call_view(getter) + ["ISZERO", "ISZERO", "@bad", "JUMPI", "STOP", ":bad"] + panic(1))  # state == 0
        invs.append((fn, dict(kind="zero")))
    elif kind == "loop":
        getter = [f for f in target.fns if f.name == "get"][0]
        for bound in (rng.choice([3, 5]),):
            fn = Fn(f"invariant_ne{bound}", [], call_view(getter) + [bound, "EQ", "@bad", "JUMPI", "STOP", ":bad"] + panic(1))
            invs.append((fn, dict(kind="ne", bound=bound)))
    fns += [f for f, _ in invs]
    # the six filter getters
    filters = filters if filters is not None else {}
    fns.append(Fn("targetSenders", [], abi_array_return(filters.get("targetSenders", [])), mutability="view", outputs=[("array", ADDR, None)]))
    fns.append(Fn("excludeSenders", [], abi_array_return(filters.get("excludeSenders", [])), mutability="view", outputs=[("array", ADDR, None)]))
    fns.append(Fn("targetContracts", [], abi_array_return(filters.get("targetContracts", [])), mutability="view", outputs=[("array", ADDR, None)]))
    fns.append(Fn("excludeContracts", [], abi_array_return(filters.get("excludeContracts", [])), mutability="view", outputs=[("array", ADDR, None)]))
    fns.append(Fn("targetSelectors", [], fuzz_selectors_return(filters.get("targetSelectors", [])), mutability="view"))
    fns.append(Fn("excludeSelectors", [], fuzz_selectors_return(filters.get("excludeSelectors", [])), mutability="view"))
    test = A.ContractSpec("InvTest", fns, filename="InvTest.sol")
    c = InvCase()
    c.test, c.target, c.meta, c.kind, c.invs, c.filters = test, target, meta, kind, invs, filters
    c.depth = depth if depth is not None else rng.choice([0, 1, 2, 3])
    return c


# ------------------------------------------------------------------------------- brute force
ARG_DOMAIN = [0, 1, 2, 3, 5, 7, 0x1234, 2**200 + 5, 2**256 - 1]
SENDERS = [foundry.CALLER, foundry.TEST, 0xBEEF, 0xCAFE]


def allowed_calls(case, senders=None):
    """independent resolution of the Foundry filter rules: list of (fn, sender list)"""
    f = case.filters
    tsel = dict((a, set(s)) for a, s in f.get("targetSelectors", []))
    xsel = dict((a, set(s)) for a, s in f.get("excludeSelectors", []))
    tcon = set(f.get("targetContracts", []))
    xcon = set(f.get("excludeContracts", []))
    deployed = {TARGET0}
    contracts = (tcon if tcon else set(deployed)) - xcon
    contracts |= set(tsel)
    contracts -= {foundry.TEST} if not (foundry.TEST in tcon or tsel.get(foundry.TEST)) else set()
    fns = []
    if TARGET0 in contracts:
        for fn in case.target.fns:
            if TARGET0 in tsel and tsel[TARGET0]:
                if fn.selector in tsel[TARGET0]:
                    fns.append(fn)
            elif TARGET0 in xsel and xsel[TARGET0]:
                if fn.selector not in xsel[TARGET0]:
                    fns.append(fn)
            elif fn.mutability not in ("view", "pure"):
                fns.append(fn)
    ts = set(f.get("targetSenders", []))
    xs = set(f.get("excludeSenders", []))
    eff = ts - xs
    cand = list(senders or SENDERS) + sorted(ts)
    if eff:
        snd = sorted(eff)
    elif xs:
        snd = [s for s in dict.fromkeys(cand) if s not in xs]
    else:
        snd = list(dict.fromkeys(cand))
    return fns, snd


def brute_force(case, inv_fn, depth, max_nodes=6000):
    """shortest call sequence (<= depth calls) after which inv_fn fails, or an assertion inside a target fails.
    returns (sequence | None, explored)"""
    fns, senders = allowed_calls(case)
    calls = []
    for fn in fns:
        doms = [ARG_DOMAIN for _ in fn.params]
        for vals in itertools.product(*doms):
            for s in senders:
                calls.append((fn, list(vals), s))
    start = []
    frontier = [start]
    explored = 0
    for d in range(0, depth + 1):
        nxt = []
        for seq in frontier:
            explored += 1
            if explored > max_nodes:
                return None, explored
            r = run_sequence(case, seq, inv_fn)
            if r == "broken":
                return seq, explored
            if r == "dead":
                continue
            if d < depth:
                for c in calls:
                    nxt.append(seq + [c])
        frontier = nxt
    return None, explored


def run_sequence(case, seq, inv_fn):
    """'broken' if the invariant (or a target assertion) fails after seq; 'ok'; 'dead' if the last call reverted (state unchanged)"""
    W, ev, fl = A.deploy(case.test)
    if W is None:
        return "dead"
    setup = case.test.fns[0]
    ok, ret, kind = ev.call(foundry.TEST, foundry.CALLER, 0, setup.selector, transfer=False)
    if not ok:
        return "dead"
    W.clear_transient()
    for i, (fn, vals, sender) in enumerate(seq):
        ev.origin = sender
        data = fn.selector + abi.encode_tuple([t for _, t in fn.params], vals)
        try:
            ok, ret, kind = ev.call(TARGET0, sender, 0, data, transfer=False)
        except foundry.TestFailed:
            return "broken"
        W.clear_transient()
        if not ok:
            if kind == "revert" and len(ret) == 36 and int.from_bytes(ret[:4], "big") == A.PANIC_SEL and int.from_bytes(ret[4:], "big") == 1:
                return "broken"
            if i == len(seq) - 1:
                return "dead"
    ev.origin = foundry.CALLER
    try:
        ok, ret, kind = ev.call(foundry.TEST, foundry.CALLER, 0, inv_fn.selector, transfer=False)
    except foundry.TestFailed:
        return "broken"
    if not ok and kind == "revert" and len(ret) == 36 and int.from_bytes(ret[:4], "big") == A.PANIC_SEL:
        return "broken"
    return "ok"
