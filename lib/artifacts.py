"""Hand-assembled forge-style artifacts: test contracts (dispatcher + function bodies in EVM assembly
tokens), their JSON (abi, methodIdentifiers, bytecode, deployedBytecode, devdoc custom:halmos), the
ContractContext for halmos.__main__.run_contract, a runner that captures stdout and the 'halmos'
logger, and reference replays (deploy -> setUp -> test) on lib/refevm + lib/foundry."""

from __future__ import annotations

import contextlib
import io
import os
import sys

import abi
import foundry
import refevm
from asm import asm
from foundry import CALLER, HEVM, SVM, TEST

PANIC_SEL = 0x4E487B71


class Fn:
    def __init__(self, name, params, body, mutability="nonpayable", devdoc=None, outputs=None):
        self.name = name
        self.params = list(params)  # [(pname, type tree)]
        self.body = list(body)
        self.mutability = mutability
        self.devdoc = devdoc
        self.outputs = outputs or []

    @property
    def sig(self):
        return abi.signature(self.name, [t for _, t in self.params])

    @property
    def selector(self):
        return abi.selector(self.sig)


class ContractSpec:
    def __init__(self, name, fns, ctor_prologue=None, natspec=None, filename=None):
        self.name = name
        self.fns = list(fns)
        self.ctor_prologue = list(ctor_prologue or [])
        self.natspec = natspec
        self.filename = filename or f"{name}.sol"
        self._runtime = None

    def runtime(self) -> bytes:
        if self._runtime is None:
            toks = [0, "CALLDATALOAD", 224, "SHR"]
            for i, f in enumerate(self.fns):
                toks += ["DUP1", ("push", int.from_bytes(f.selector, "big"), 4), "EQ", f"@fn{i}", "JUMPI"]
            toks += [0, 0, "REVERT"]
            for i, f in enumerate(self.fns):
                toks += [f":fn{i}", "POP"]
                for t in f.body:
                    if isinstance(t, str) and t[:1] in ":@" :
                        t = t[0] + f"f{i}_" + t[1:]
                    toks.append(t)
            self._runtime = asm(toks)
        return self._runtime

    def creation(self) -> bytes:
        rt = self.runtime()
        pro = asm(self.ctor_prologue) if self.ctor_prologue else b""
        n = len(rt)
        off = len(pro) + 13
        head = asm([("push", n, 2), ("push", off, 2), 0, "CODECOPY", ("push", n, 2), 0, "RETURN"])
        return pro + head + rt

    def json(self) -> dict:
        items = []
        for f in self.fns:
            items.append({"type": "function", "name": f.name, "inputs": [abi.json_param(n, t) for n, t in f.params],
                          "outputs": [abi.json_param(f"o{i}", t) for i, t in enumerate(f.outputs)], "stateMutability": f.mutability})
        methods = {f.sig: {"custom:halmos": f.devdoc} for f in self.fns if f.devdoc}
        return {
            "abi": items,
            "methodIdentifiers": {f.sig: f.selector.hex() for f in self.fns},
            "bytecode": {"object": "0x" + self.creation().hex(), "linkReferences": {}},
            "deployedBytecode": {"object": "0x" + self.runtime().hex(), "linkReferences": {}},
            "metadata": {"output": {"devdoc": {"methods": methods}}},
            "ast": {"absolutePath": self.filename, "nodes": []},
        }


# ------------------------------------------------------------------------------- token helpers
def panic(code):
    return [("push", PANIC_SEL << 224, 32), 0, "MSTORE", code, 4, "MSTORE", 36, 0, "REVERT"]


def arg(i):
    return [4 + 32 * i, "CALLDATALOAD"]


def call_cheat(addr, sig, word_args, mem=0x300, ret=0):
    """CALL addr with selector(sig) ++ words produced by the token lists in word_args; leaves the success flag"""
    toks = [("push", int.from_bytes(abi.selector(sig), "big") << 224, 32), mem, "MSTORE"]
    for i, w in enumerate(word_args):
        toks += list(w) + [mem + 4 + 32 * i, "MSTORE"]
    toks += [ret, mem + 0x100, 4 + 32 * len(word_args), mem, 0, ("push", addr, 20), 0xFFFF, "CALL"]
    return toks


def call_raw(addr, data: bytes, mem=0x300, ret=0x500, ret_size=32):
    """CALL addr with literal calldata; the return data is copied to mem[ret:ret+ret_size]; leaves the success flag"""
    toks = []
    padded = data + bytes((-len(data)) % 32)
    for i in range(0, len(padded), 32):
        toks += [("push", int.from_bytes(padded[i : i + 32], "big"), 32), mem + i, "MSTORE"]
    toks += [ret_size, ret, len(data), mem, 0, ("push", addr, 20), 0xFFFF, "CALL"]
    return toks


def svm_create_uint256(name: str, ret=0x500):
    """svm.createUint256(name): leaves the fresh symbol on the stack"""
    data = abi.selector("createUint256(string)") + abi.encode_tuple([("string",)], [name.encode()])
    return call_raw(SVM, data, ret=ret) + ["POP", ret, "MLOAD"]


def vm(sig, *word_args):
    return call_cheat(HEVM, sig, word_args) + ["POP"]


def fail_flag():
    return vm("store(address,bytes32,bytes32)", [("push", HEVM, 20)], [("push", foundry.FAILED_SLOT, 32)], [1])


# ------------------------------------------------------------------------------- halmos side
class RunOutput:
    def __init__(self):
        self.results = []
        self.logs = []
        self.stdout = ""
        self.exception = None

    def warnings(self):
        return [m for lvl, m in self.logs if lvl in ("WARNING", "ERROR")]

    def by_sig(self):
        return {r.name: r for r in self.results}


def make_ctx(spec: ContractSpec, funsigs=None, overrides=None, others=(), args=None):
    import symrun  # noqa: F401  (log capture, recursion limits)
    from halmos.calldata import get_abi
    from halmos.config import ConfigSource, default_config
    from halmos.solve import ContractContext

    cj = spec.json()
    bom = {spec.filename: {spec.name: (cj, "contract", spec.natspec)}}
    for o in others:
        bom.setdefault(o.filename, {})[o.name] = (o.json(), "contract", o.natspec)
    if args is None:
        ov = dict(no_status=True, solver="yices")
        ov.update(overrides or {})
        args = default_config().with_overrides(ConfigSource.command_line, **ov)
    if funsigs is None:
        funsigs = [f.sig for f in spec.fns if f.name.startswith(("check_", "invariant_", "test"))]
    return ContractContext(args=args, name=spec.name, funsigs=list(funsigs), creation_hexcode=spec.creation().hex(), deployed_hexcode=spec.runtime().hex(),
                           abi=get_abi(cj), method_identifiers=cj["methodIdentifiers"], contract_json=cj, libs={}, build_out_map=bom)


def run(ctx) -> RunOutput:
    import symrun
    from halmos.__main__ import run_contract

    symrun.install_log_capture()
    symrun.take_logs()
    # run_contract is not subject to the per-run step budget that symrun.run_symbolic may have left behind in this process
    symrun.MON.steps = 0
    symrun.MON.step_budget = 0
    out = RunOutput()
    buf = io.StringIO()
    try:
        with contextlib.redirect_stdout(buf):
            out.results = run_contract(ctx)
    except BaseException as e:  # noqa
        import traceback

        out.exception = "".join(traceback.format_exception(type(e), e, e.__traceback__))[-2000:]
    out.stdout = buf.getvalue()
    out.logs = symrun.take_logs()
    return out


# ------------------------------------------------------------------------------- reference side
class Replay:
    def __init__(self):
        self.status = None  # ok | revert | halt | assume-rejected | setup-failed | unsupported
        self.ret = b""
        self.failed_flag = False
        self.panic_code = None
        self.kind = None
        self.evm = None
        self.features = {}

    def fails(self, panic_codes=frozenset({1})):
        """does this concrete execution end in a configured Panic code or set the global failure flag"""
        if self.failed_flag:
            return True
        if self.status == "revert" and self.panic_code is not None:
            return (not panic_codes) or self.panic_code in panic_codes
        return False


def new_address_script():
    state = {"k": 0}

    def newaddr(evm, creator, salt, init):
        state["k"] += 1
        return 0xAAAA0001 + state["k"]

    return newaddr


def deploy(spec: ContractSpec, others=(), tape=None, step_budget=400_000):
    """reference world after running the creation code of the test contract"""
    W = refevm.World()
    W.get(TEST).balance = foundry.TEST_BALANCE
    ev = refevm.EVM(W, origin=CALLER, newaddr=new_address_script(), step_budget=step_budget)
    fl = foundry.Foundry(ev, tape=tape)
    ok, out, kind = ev.call(TEST, CALLER, 0, b"", is_create=True, initcode=spec.creation(), transfer=False)
    if not ok:
        return None, None, None
    W.get(TEST).code = out
    W.get(TEST).nonce = 1
    return W, ev, fl


def replay(spec: ContractSpec, fn: Fn, values, setup_fn: Fn | None = None, tape=None, calls_before=(), raw_calldata=None) -> Replay:
    r = Replay()
    try:
        W, ev, fl = deploy(spec, tape=tape)
        if W is None:
            r.status = "setup-failed"
            return r
        r.evm = ev
        if setup_fn is not None:
            ok, ret, kind = ev.call(TEST, CALLER, 0, setup_fn.selector, transfer=False)
            if not ok:
                r.status = "setup-failed"
                return r
            W.clear_transient()
        for (to, sender, value, data) in calls_before:
            ev.origin = sender
            ev.call(to, sender, value, data, transfer=True)
            W.clear_transient()
        ev.origin = CALLER
        data = raw_calldata if raw_calldata is not None else fn.selector + abi.encode_tuple([t for _, t in fn.params], values)
        del ev.logs[:]
        ok, ret, kind = ev.call(TEST, CALLER, 0, data, transfer=False)
        r.ret, r.kind = ret, kind
        r.failed_flag = ev.failed
        r.features = fl.features
        if ok:
            r.status = "ok"
        elif kind == "revert":
            r.status = "revert"
            if len(ret) == 36 and int.from_bytes(ret[:4], "big") == PANIC_SEL:
                r.panic_code = int.from_bytes(ret[4:], "big")
        else:
            r.status = "halt"
    except foundry.AssumeRejected:
        r.status = "assume-rejected"
    except foundry.TestFailed as e:
        r.status = "test-failed"
        r.failed_flag = True
        r.kind = e.why
    except refevm.Unsupported as e:
        r.status = "unsupported"
        r.kind = str(e)
    except refevm.StepBudget:
        r.status = "unsupported"
        r.kind = "step budget"
    return r


def model_values(fn: Fn, model, args=None):
    """reconstruct concrete ABI argument values for `fn` from a PotentialModel (p_<name>_<type>_.. symbols).
    Returns None when a needed symbol has an unexpected shape."""
    full = {k: v for k, v in model.model.items()}

    def find(prefix):
        for k, v in full.items():
            if k.startswith(prefix):
                return v
        return None

    def val(name, t):
        k = t[0]
        if k in ("uint", "int", "address", "bool"):
            mv = find(f"p_{name}_{abi.type_str(t)}_")
            return mv.value if mv is not None else 0
        if k == "bytesN":
            mv = find(f"p_{name}_{abi.type_str(t)}_")
            x = mv.value if mv is not None else 0
            return x.to_bytes(32, "big")[: t[1]]
        if k in ("bytes", "string"):
            ln = find(f"p_{name}_length_")
            n = ln.value if ln is not None else 0
            mv = find(f"p_{name}_{k}_")
            if mv is None:
                return bytes(n)
            raw = mv.value.to_bytes(mv.size_bits // 8, "big")
            return raw[:n] + bytes(max(0, n - len(raw)))
        if k == "array":
            if t[2] is None:
                ln = find(f"p_{name}_length_")
                n = ln.value if ln is not None else 0
            else:
                n = t[2]
            return [val(f"{name}[{i}]", t[1]) for i in range(n)]
        if k == "tuple":
            pre = f"{name}." if name else ""
            return [val(f"{pre}f{i}", x) for i, x in enumerate(t[1])]
        raise ValueError(t)

    return [val(n, t) for n, t in fn.params]
