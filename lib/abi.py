"""Independent ABI codec (written from the Solidity ABI specification; shares nothing with
halmos.calldata).  Types are trees:
   ("uint", N) ("int", N) ("address",) ("bool",) ("bytesN", N) ("bytes",) ("string",)
   ("array", T, None | k)  ("tuple", [T...])
"""

from __future__ import annotations

from eth_hash.auto import keccak


def type_str(t):
    k = t[0]
    if k == "uint":
        return f"uint{t[1]}"
    if k == "int":
        return f"int{t[1]}"
    if k == "bytesN":
        return f"bytes{t[1]}"
    if k in ("address", "bool", "bytes", "string"):
        return k
    if k == "array":
        return type_str(t[1]) + ("[]" if t[2] is None else f"[{t[2]}]")
    if k == "tuple":
        return "(" + ",".join(type_str(x) for x in t[1]) + ")"
    raise ValueError(t)


def json_type(t):
    """the 'type' string used in ABI JSON (tuples are spelled 'tuple' + array suffixes)"""
    if t[0] == "array":
        return json_type(t[1]) + ("[]" if t[2] is None else f"[{t[2]}]")
    if t[0] == "tuple":
        return "tuple"
    return type_str(t)


def tuple_core(t):
    while t[0] == "array":
        t = t[1]
    return t if t[0] == "tuple" else None


def json_param(name, t, names=None):
    item = {"name": name, "type": json_type(t), "internalType": json_type(t)}
    core = tuple_core(t)
    if core is not None:
        item["components"] = [json_param(f"f{i}", x) for i, x in enumerate(core[1])]
    return item


def signature(name, types):
    return name + "(" + ",".join(type_str(t) for t in types) + ")"


def selector(sig: str) -> bytes:
    return keccak(sig.encode())[:4]


def is_dynamic(t):
    k = t[0]
    if k in ("bytes", "string"):
        return True
    if k == "array":
        return t[2] is None or is_dynamic(t[1])
    if k == "tuple":
        return any(is_dynamic(x) for x in t[1])
    return False


def head_size(t):
    if is_dynamic(t):
        return 32
    k = t[0]
    if k == "array":
        return t[2] * head_size(t[1])
    if k == "tuple":
        return sum(head_size(x) for x in t[1])
    return 32


def encode(t, v) -> bytes:
    k = t[0]
    if k == "uint":
        return (v % (1 << 256)).to_bytes(32, "big")
    if k == "int":
        return (v % (1 << 256)).to_bytes(32, "big")
    if k == "address":
        return v.to_bytes(32, "big")
    if k == "bool":
        return int(bool(v)).to_bytes(32, "big")
    if k == "bytesN":
        return bytes(v) + bytes(32 - len(v))
    if k in ("bytes", "string"):
        b = v.encode() if isinstance(v, str) else bytes(v)
        return len(b).to_bytes(32, "big") + b + bytes(-len(b) % 32)
    if k == "array":
        if t[2] is None:
            return len(v).to_bytes(32, "big") + encode_tuple([t[1]] * len(v), v)
        return encode_tuple([t[1]] * t[2], v)
    if k == "tuple":
        return encode_tuple(t[1], v)
    raise ValueError(t)


def encode_tuple(types, vals) -> bytes:
    heads, tails = [], []
    hs = sum(head_size(t) for t in types)
    off = hs
    for t, v in zip(types, vals):
        e = encode(t, v)
        if is_dynamic(t):
            heads.append(off.to_bytes(32, "big"))
            tails.append(e)
            off += len(e)
        else:
            heads.append(e)
    return b"".join(heads) + b"".join(tails)


class DecodeError(Exception):
    pass


def _word(data, off):
    if off < 0 or off + 32 > len(data):
        raise DecodeError(f"read of 32 bytes at {off} beyond the data ({len(data)})")
    return int.from_bytes(data[off : off + 32], "big")


def decode(t, data, off, events=None, path=""):
    """decode a value of type t whose encoding starts at data[off:]; follows offsets like a real decoder
    (no canonicality requirement).  `events` collects (path, kind, value) for dynamic lengths met."""
    k = t[0]
    if k in ("uint", "int", "address", "bool"):
        return _word(data, off)
    if k == "bytesN":
        return data[off : off + 32] if off + 32 <= len(data) else (_ for _ in ()).throw(DecodeError("bytesN beyond data"))
    if k in ("bytes", "string"):
        n = _word(data, off)
        if events is not None:
            events.append((path, "len", n))
        if off + 32 + n > len(data):
            raise DecodeError(f"{k} of length {n} at {off} beyond the data ({len(data)})")
        return data[off + 32 : off + 32 + n]
    if k == "array":
        if t[2] is None:
            n = _word(data, off)
            if events is not None:
                events.append((path, "len", n))
            if n > 4096:
                raise DecodeError(f"array length {n} too large")
            return decode_tuple([t[1]] * n, data, off + 32, events, [f"{path}[{i}]" for i in range(n)])
        return decode_tuple([t[1]] * t[2], data, off, events, [f"{path}[{i}]" for i in range(t[2])])
    if k == "tuple":
        return decode_tuple(t[1], data, off, events, [f"{path}.{i}" if path else f"{i}" for i in range(len(t[1]))])
    raise ValueError(t)


def decode_tuple(types, data, base, events=None, paths=None):
    out = []
    pos = base
    for i, t in enumerate(types):
        p = paths[i] if paths else str(i)
        if is_dynamic(t):
            o = _word(data, pos)
            out.append(decode(t, data, base + o, events, p))
            pos += 32
        else:
            out.append(decode(t, data, pos, events, p))
            pos += head_size(t)
    return out


# --------------------------------------------------------------------------- generators
def random_type(rng, depth=2, allow_dynamic=True):
    k = rng.random()
    if depth <= 0 or k < 0.45:
        c = rng.random()
        if c < 0.35:
            return ("uint", rng.choice([8, 16, 32, 64, 128, 160, 256, 256]))
        if c < 0.5:
            return ("int", rng.choice([8, 64, 128, 256]))
        if c < 0.6:
            return ("address",)
        if c < 0.7:
            return ("bool",)
        if c < 0.8:
            return ("bytesN", rng.choice([1, 4, 20, 32]))
        if allow_dynamic:
            return ("bytes",) if rng.random() < 0.6 else ("string",)
        return ("uint", 256)
    if k < 0.65 and allow_dynamic:
        return ("array", random_type(rng, depth - 1, allow_dynamic), None)
    if k < 0.8:
        return ("array", random_type(rng, depth - 1, allow_dynamic), rng.choice([1, 2, 3]))
    return ("tuple", [random_type(rng, depth - 1, allow_dynamic) for _ in range(rng.randrange(1, 4))])


def random_value(rng, t, lengths=None, path=""):
    k = t[0]
    if k == "uint":
        return rng.getrandbits(t[1])
    if k == "int":
        return rng.getrandbits(t[1]) - (1 << (t[1] - 1))
    if k == "address":
        return rng.getrandbits(160)
    if k == "bool":
        return rng.getrandbits(1)
    if k == "bytesN":
        return bytes(rng.getrandbits(8) for _ in range(t[1]))
    if k in ("bytes", "string"):
        n = (lengths or {}).get(path, rng.choice([0, 1, 31, 32, 33]))
        return bytes(rng.getrandbits(8) for _ in range(n))
    if k == "array":
        n = t[2] if t[2] is not None else (lengths or {}).get(path, rng.randrange(0, 3))
        return [random_value(rng, t[1], lengths, f"{path}[{i}]") for i in range(n)]
    if k == "tuple":
        return [random_value(rng, x, lengths, f"{path}.{i}" if path else str(i)) for i, x in enumerate(t[1])]
    raise ValueError(t)
