"""C15 generator and oracle: one or two stateful target contracts CREATEd by setUp(), invariant_* functions, the six
target*/exclude* getters with random contents (incl. repeated FuzzSelector entries), and an explicit-state
breadth-first oracle over call sequences (arguments from small domains, admissible senders, call values, non-decreasing
timestamps) on the reference EVM."""

from __future__ import annotations

import itertools

import abi
import artifacts as A
import foundry
import invgen
import refevm
from artifacts import Fn, arg, panic
from invgen import ADDR, TARGET0, TARGET1, U, abi_array_return, fuzz_selectors_return, ret_word

UARR = ("array", U, None)


def setter_target(rng, name="Setter"):
    T = rng.choice([10, 100])
    lo, hi = T // 2, 2 * T
    fns = [
        Fn("set", [("x", U)], arg(0) + [0, "SSTORE"] + arg(0) + [T, "LT", "@big", "JUMPI", "STOP", ":big", 0, 0, "LOG0", "STOP"]),
        Fn("get", [], ret_word([0, "SLOAD"]), mutability="view", outputs=[U]),
    ]
    consts = [lo, hi, T, T + 1]
    if rng.random() < 0.5:
        # a function that can only store small values, listed first: sequences through it are the first candidates for the assertion in check(),
        # and they are infeasible
        fns.insert(0, Fn("aLow", [("x", U)], arg(0) + [3, "GT", "ISZERO", "@no", "JUMPI"] + arg(0) + [0, "SSTORE", "STOP", ":no", 0, 0, "REVERT"]))  # require(x < 3); s = x
    if rng.random() < 0.5:
        # assertion inside a target, reachable only after a particular value was stored: check() panics iff s == magic
        magic = rng.choice([3, T + 1])
        fns.append(Fn("check", [], [0, "SLOAD", magic, "EQ", "@bad", "JUMPI", "STOP", ":bad"] + panic(1)))
        consts.append(magic)
    return A.ContractSpec(name, fns), dict(kind="setter", consts=consts, bounds=[lo, hi])


def clock_target(rng, name="Clock"):
    fns = [
        Fn("tick", [], ["TIMESTAMP", 0, "SLOAD", "LT", "@go", "JUMPI", "STOP", ":go", "TIMESTAMP", 0, "SSTORE", 1, 1, "SLOAD", "ADD", 1, "SSTORE", "STOP"]),
        Fn("back", [], [0, "SLOAD", "TIMESTAMP", "LT", "@bad", "JUMPI", "STOP", ":bad", 1, 2, "SSTORE", "STOP"]),  # TIMESTAMP < last: impossible
        Fn("state", [], ret_word([1, "SLOAD", 2, "SLOAD", 16, "MUL", "ADD"]), mutability="view", outputs=[U]),
    ]
    return A.ContractSpec(name, fns), dict(kind="clock", time=True)


def vault_target(rng, name="Vault"):
    fns = [
        Fn("deposit", [], [0, "SLOAD", "CALLVALUE", "ADD", 0, "SSTORE", "STOP"], mutability="payable"),
        Fn("reset", [], [0, 0, "SSTORE", "STOP"]),
        Fn("total", [], ret_word([0, "SLOAD"]), mutability="view", outputs=[U]),
        Fn("bal", [], ret_word(["SELFBALANCE"]), mutability="view", outputs=[U]),
    ]
    return A.ContractSpec(name, fns), dict(kind="vault", values=[0, 1, 5])


def arr_target(rng, name="Arr"):
    K = rng.choice([7, 0x1234])
    body = [4, "CALLDATALOAD", 4, "ADD", "DUP1", "CALLDATALOAD", 2, "EQ", "ISZERO", "@no", "JUMPI", 64, "ADD", "CALLDATALOAD", K, "EQ", "ISZERO", "@no", "JUMPI",
            1, 0, "SSTORE", "STOP", ":no", "STOP"]
    fns = [Fn("push", [("xs", UARR)], body), Fn("get", [], ret_word([0, "SLOAD"]), mutability="view", outputs=[U])]
    return A.ContractSpec(name, fns), dict(kind="arr", consts=[K])


def aux_target(rng, name="Aux"):
    fns = [Fn("trip", [], [1, 0, "SSTORE", "STOP"]), Fn("untrip", [], [0, 0, "SSTORE", "STOP"]), Fn("tripped", [], ret_word([0, "SLOAD"]), mutability="view", outputs=[U])]
    return A.ContractSpec(name, fns), dict(kind="aux")


TARGET2 = 0xAAAA0004
SEL = lambda sig: int.from_bytes(abi.selector(sig), "big")


def call_addr_from_slot0(sig):
    """CALL (address stored in slot 0).sig(); the result is ignored"""
    return [("push", SEL(sig) << 224, 32), 0x300, "MSTORE", 0, 0, 4, 0x300, 0, 0, "SLOAD", 0xFFFF, "CALL", "POP", "STOP"]


def router_target(rng, name="Router"):
    """keeps an address chosen by a caller and forwards trip()/untrip() to it: which contract is reached depends on state"""
    # several functions reach the stored address; the one that matters is not always the first one executed from a state
    pokes = [Fn("poke1", [], call_addr_from_slot0("untrip()")), Fn("poke2", [], call_addr_from_slot0("trip()")), Fn("poke3", [], call_addr_from_slot0("tripped()"))]
    if rng.random() < 0.4:
        pokes[0], pokes[1] = Fn("poke1", [], call_addr_from_slot0("trip()")), Fn("poke2", [], call_addr_from_slot0("untrip()"))
    fns = [Fn("setTarget", [("a", ADDR)], arg(0) + [0, "SSTORE", "STOP"])] + pokes + [Fn("target", [], ret_word([0, "SLOAD"]), mutability="view", outputs=[ADDR])]
    return A.ContractSpec(name, fns), dict(kind="router", addr_domain=[TARGET1, TARGET2, 0xBEEF])


def factory_targets(rng):
    """a factory whose target functions deploy children of different types at run time"""
    childA = A.ContractSpec("ChildA", [Fn("noop", [], ["STOP"]), Fn("get", [], ret_word([0, "SLOAD"]), mutability="view", outputs=[U])], filename="ChildA.sol")
    childB = A.ContractSpec("ChildB", [Fn("boom", [], [1, 0, "SSTORE", "STOP"]), Fn("calm", [], [0, 0, "SSTORE", "STOP"]), Fn("get", [], ret_word([0, "SLOAD"]), mutability="view", outputs=[U])],
                            filename="ChildB.sol")

    def mk(child):
        init = child.creation()
        toks = []
        padded = init + bytes((-len(init)) % 32)
        for i in range(0, len(padded), 32):
            toks += [("push", int.from_bytes(padded[i : i + 32], "big"), 32), 0x400 + i, "MSTORE"]
        return toks + [len(init), 0x400, 0, "CREATE", 0, "SSTORE", "STOP"]

    order = [("mkA", childA), ("mkB", childB)]
    if rng.random() < 0.5:
        order.reverse()
    fns = [Fn(n, [], mk(ch)) for n, ch in order] + [Fn("child", [], ret_word([0, "SLOAD"]), mutability="view", outputs=[ADDR])]
    factory = A.ContractSpec("Factory", fns, filename="Factory.sol")
    return factory, dict(kind="factory", children=[childA, childB])


def selftarget_target(rng, name="unused"):
    """the test contract itself is the target (targetContract(address(this))): its own state-changing functions are called, except the reserved
    ones (setUp(), test*/check*/prove*/invariant* functions, afterInvariant())"""
    return None, dict(kind="selftarget", consts=[9])


KINDS = {"counter": invgen.counter_target, "flags": invgen.flags_target, "owner": invgen.owner_target, "setter": setter_target, "clock": clock_target,
         "vault": vault_target, "arr": arr_target, "router": router_target, "factory": lambda rng: factory_targets(rng), "selftarget": selftarget_target}


class Case2:
    pass


def call_view(addr, fn):
    return A.call_raw(addr, fn.selector, ret=0x500) + ["POP", 0x500, "MLOAD"]


def getter(spec, name):
    return [f for f in spec.fns if f.name == name][0]


def inv(name, view_toks, cmp_toks):
    """invariant fails (Panic 1) iff cmp_toks leaves non-zero for the viewed word"""
    return Fn(name, [], view_toks + cmp_toks + ["@bad", "JUMPI", "STOP", ":bad"] + panic(1))


def make_case(rng, kind=None, depth=None, with_aux=None, filters="random", balance_invariants=False):
    kind = kind or rng.choice(list(KINDS))
    if kind == "selftarget":
        return make_selftarget_case(rng, depth)
    target, meta = KINDS[kind](rng)
    aux = None
    if kind == "router":
        aux, _ = aux_target(rng)
        aux2, _ = aux_target(rng, name="Aux2")
        aux2.filename = "Aux2.sol"
    elif kind == "factory":
        aux = None
    elif with_aux if with_aux is not None else rng.random() < 0.5:
        aux, _ = aux_target(rng)
    setup = []
    mem = 0x400
    deployed = [target] + ([aux] if aux else []) + ([aux2] if kind == "router" else [])
    for slot, t in enumerate(deployed):
        init = t.creation()
        padded = init + bytes((-len(init)) % 32)
        for i in range(0, len(padded), 32):
            setup += [("push", int.from_bytes(padded[i : i + 32], "big"), 32), mem + i, "MSTORE"]
        setup += [len(init), mem, 0, "CREATE", slot, "SSTORE"]
    setup += ["STOP"]
    fns = [Fn("setUp", [], setup)]
    invs = []
    if kind == "counter":
        g = call_view(TARGET0, getter(target, "get"))
        for b in sorted({meta["K"], rng.choice([1, 4, 7])}):
            invs.append(inv(f"invariant_ne{b}", g, [b, "EQ"]))
    elif kind == "flags":
        g = call_view(TARGET0, getter(target, "level"))
        for b in (2, 3):
            invs.append(inv(f"invariant_lt{b}", g, [b, "GT", "ISZERO"]))
    elif kind == "owner":
        invs.append(inv("invariant_closed", call_view(TARGET0, getter(target, "state")), ["ISZERO", "ISZERO"]))
    elif kind == "setter":
        g = call_view(TARGET0, getter(target, "get"))
        for b in meta["bounds"]:
            invs.append(inv(f"invariant_ne{b}", g, [b, "EQ"]))
    elif kind == "clock":
        g = call_view(TARGET0, getter(target, "state"))
        for b in (2, 3):
            invs.append(inv(f"invariant_ticks_ne{b}", g, [b, "EQ"]))
        invs.append(inv("invariant_monotone", g, [15, "LT"]))  # state > 15 <=> back() observed a decreasing timestamp
    elif kind == "vault":
        invs.append(inv("invariant_total_ne5", call_view(TARGET0, getter(target, "total")), [5, "EQ"]))
        invs.append(inv("invariant_total_ne2", call_view(TARGET0, getter(target, "total")), [2, "EQ"]))
        if balance_invariants:
            # only used by the dedicated probe of the known finding "top-level call value is not transferred"
            invs.append(inv("invariant_bal_lt5", call_view(TARGET0, getter(target, "bal")), [5, "GT", "ISZERO"]))
            invs.append(inv("invariant_solvent", call_view(TARGET0, getter(target, "bal")) + call_view(TARGET0, getter(target, "total")), ["GT"]))  # fails iff total > bal
    elif kind == "arr":
        invs.append(inv("invariant_zero", call_view(TARGET0, getter(target, "get")), ["ISZERO", "ISZERO"]))
    elif kind == "router":
        invs.append(inv("invariant_aux2", call_view(TARGET2, getter(aux2, "tripped")), ["ISZERO", "ISZERO"]))
    elif kind == "factory":
        # child = factory.child(); child == 0 or child.get() == 0
        get_sel = getter(meta["children"][0], "get").selector
        toks = call_view(TARGET0, getter(target, "child")) + ["DUP1", "ISZERO", "@none", "JUMPI",
                ("push", int.from_bytes(get_sel, "big") << 224, 32), 0x300, "MSTORE", 32, 0x520, 4, 0x300, 0, "DUP6", 0xFFFF, "CALL", "POP", "POP", 0x520, "MLOAD", "@bad", "JUMPI", "STOP",
                ":none", "STOP", ":bad"] + panic(1)
        invs.append(Fn("invariant_child_calm", [], toks))
    if aux:
        invs.append(inv("invariant_aux", call_view(TARGET1, getter(aux, "tripped")), ["ISZERO", "ISZERO"]))
    fns += invs
    c = Case2()
    c.target, c.aux, c.meta, c.kind, c.invs = target, aux, meta, kind, invs
    c.contracts = {TARGET0: target}
    if aux:
        c.contracts[TARGET1] = aux
    c.others = list(deployed)
    c.dynamic = {}
    if kind == "router":
        c.contracts[TARGET2] = aux2
        # only the router is a target: the auxiliary contracts are reached through the address it stores
        if filters == "random":
            filters = {"targetContracts": [TARGET0]}
            if rng.random() < 0.3:
                filters["excludeSenders"] = [0xCAFE]
    elif kind == "factory":
        c.dynamic = {ch.runtime(): ch for ch in meta["children"]}
        c.others = [target] + list(meta["children"])
        if filters == "random":
            filters = {}
    c.filters = random_filters(rng, c) if filters == "random" else dict(filters or {})
    f = c.filters
    fns.append(Fn("targetSenders", [], abi_array_return(f.get("targetSenders", [])), mutability="view", outputs=[("array", ADDR, None)]))
    fns.append(Fn("excludeSenders", [], abi_array_return(f.get("excludeSenders", [])), mutability="view", outputs=[("array", ADDR, None)]))
    fns.append(Fn("targetContracts", [], abi_array_return(f.get("targetContracts", [])), mutability="view", outputs=[("array", ADDR, None)]))
    fns.append(Fn("excludeContracts", [], abi_array_return(f.get("excludeContracts", [])), mutability="view", outputs=[("array", ADDR, None)]))
    fns.append(Fn("targetSelectors", [], fuzz_selectors_return(f.get("targetSelectors", [])), mutability="view"))
    fns.append(Fn("excludeSelectors", [], fuzz_selectors_return(f.get("excludeSelectors", [])), mutability="view"))
    c.test = A.ContractSpec("InvTest", fns, filename="InvTest.sol")
    c.depth = depth if depth is not None else rng.choice([0, 1, 1, 2, 2, 3])
    return c


RESERVED_PREFIXES = ("test_", "check_", "prove_", "invariant_")


def make_selftarget_case(rng, depth=None):
    K = 9
    names = rng.choice([("setUpperBound", "bumpNonce"), ("setUpdater", "touch"), ("setBound", "setUpgradeDelay")])
    breaker = Fn(names[0], [("x", U)], arg(0) + [5, "SSTORE", "STOP"])
    other = Fn(names[1], [], [6, "SLOAD", 1, "ADD", 6, "SSTORE", "STOP"]) if not names[1].startswith("setUp") else Fn(names[1], [("d", U)], arg(0) + [7, "SSTORE", "STOP"])
    invs = [Fn("invariant_bound", [], [5, "SLOAD", K, "EQ", "@bad", "JUMPI", "STOP", ":bad"] + panic(1))]
    order = [breaker, other] if rng.random() < 0.5 else [other, breaker]
    fns = [Fn("setUp", [], ["STOP"])] + order + invs
    c = Case2()
    c.target, c.aux, c.meta, c.kind, c.invs = None, None, dict(kind="selftarget", consts=[K]), "selftarget", invs
    c.filters = {"targetContracts": [foundry.TEST]}
    if rng.random() < 0.3:
        c.filters["excludeSenders"] = [0xCAFE]
    f = c.filters
    fns.append(Fn("targetSenders", [], abi_array_return(f.get("targetSenders", [])), mutability="view", outputs=[("array", ADDR, None)]))
    fns.append(Fn("excludeSenders", [], abi_array_return(f.get("excludeSenders", [])), mutability="view", outputs=[("array", ADDR, None)]))
    fns.append(Fn("targetContracts", [], abi_array_return(f.get("targetContracts", [])), mutability="view", outputs=[("array", ADDR, None)]))
    fns.append(Fn("excludeContracts", [], abi_array_return([]), mutability="view", outputs=[("array", ADDR, None)]))
    fns.append(Fn("targetSelectors", [], fuzz_selectors_return([]), mutability="view"))
    fns.append(Fn("excludeSelectors", [], fuzz_selectors_return([]), mutability="view"))
    c.test = A.ContractSpec("InvTest", fns, filename="InvTest.sol")
    c.contracts = {foundry.TEST: c.test}
    c.others = []
    c.dynamic = {}
    c.depth = depth if depth is not None else rng.choice([1, 1, 2])
    return c


def subset(rng, xs, nonempty=True):
    xs = list(xs)
    while True:
        s = [x for x in xs if rng.random() < 0.5]
        if s or not nonempty:
            return s


def random_filters(rng, c):
    """random contents for the six getters; combinations that leave no target contract are not generated"""
    addrs = sorted(c.contracts)
    for _ in range(50):
        f = {}
        if rng.random() < 0.3:
            f["targetContracts"] = subset(rng, addrs)
        if rng.random() < 0.25:
            f["excludeContracts"] = subset(rng, addrs)
        for key in ("targetSelectors", "excludeSelectors"):
            if rng.random() < 0.35:
                entries = []
                for a in subset(rng, addrs):
                    sels = [fn.selector for fn in c.contracts[a].fns]
                    chosen = subset(rng, sels)
                    if len(chosen) >= 2 and rng.random() < 0.6:
                        # several FuzzSelector entries for one contract accumulate
                        k = rng.randrange(1, len(chosen))
                        entries.append((a, chosen[:k]))
                        entries.append((a, chosen[k:]))
                    else:
                        entries.append((a, chosen))
                rng.shuffle(entries)
                f[key] = entries
        if rng.random() < 0.3:
            f["targetSenders"] = subset(rng, [0xBEEF, 0xCAFE, foundry.CALLER, foundry.TEST])
        if rng.random() < 0.3:
            f["excludeSenders"] = subset(rng, [0xBEEF, 0xCAFE, foundry.TEST])
        if resolve_contracts(c, f):
            return f
    return {}


# ------------------------------------------------------------------------------- independent filter resolution
def acc(entries):
    out = {}
    for a, sels in entries:
        out.setdefault(a, set()).update(sels)
    return out


def resolve_contracts(c, f):
    tsel = acc(f.get("targetSelectors", []))
    tcon = set(f.get("targetContracts", []))
    xcon = set(f.get("excludeContracts", []))
    deployed = set(c.contracts) | {foundry.TEST}
    res = (set(tcon) if tcon else set(deployed)) - xcon
    res |= set(tsel)
    if not (foundry.TEST in tcon or tsel.get(foundry.TEST)):
        res -= {foundry.TEST}
    return res


def allowed(c):
    """-> ([(addr, fn)], sender predicate, finite sender candidates)"""
    f = c.filters
    tsel = acc(f.get("targetSelectors", []))
    xsel = acc(f.get("excludeSelectors", []))
    fns = []
    for a in sorted(resolve_contracts(c, f)):
        if a not in c.contracts:
            continue
        for fn in c.contracts[a].fns:
            if tsel.get(a):
                ok = fn.selector in tsel[a]
            elif xsel.get(a):
                ok = fn.selector not in xsel[a]
            else:
                ok = fn.mutability not in ("view", "pure")
                if a == foundry.TEST and (fn.sig.startswith(RESERVED_PREFIXES) or fn.sig in ("setUp()", "afterInvariant()")):
                    ok = False  # reserved functions of the test contract are never called as targets
            if ok:
                fns.append((a, fn))
    ts = set(f.get("targetSenders", []))
    xs = set(f.get("excludeSenders", []))
    eff = ts - xs
    if eff:
        pred = lambda s: s in eff
    elif xs:
        pred = lambda s: s not in xs
    else:
        pred = lambda s: True
    cands = [s for s in dict.fromkeys([foundry.CALLER, foundry.TEST, 0xBEEF, 0xCAFE, 0xD00D] + sorted(ts)) if pred(s)]
    return fns, pred, cands


# ------------------------------------------------------------------------------- explicit-state oracle
BASE_DOMAIN = [0, 1, 2, 3, 5, 7, 0x1234, 2**200 + 5, 2**256 - 1]


def domain(c, t):
    if t == U:
        return list(dict.fromkeys(BASE_DOMAIN + list(c.meta.get("consts", []))))
    if t == ADDR:
        return list(c.meta.get("addr_domain", [0xBEEF]))
    if t == UARR:
        ks = list(c.meta.get("consts", [])) + [0]
        return [[]] + [[k] for k in ks] + [[a, b] for a in (0, 1) for b in ks]
    raise ValueError(t)


class Call:
    __slots__ = ("addr", "fn", "vals", "sender", "value", "dt")

    def __init__(self, addr, fn, vals, sender, value, dt):
        self.addr, self.fn, self.vals, self.sender, self.value, self.dt = addr, fn, vals, sender, value, dt

    def describe(self):
        return dict(to=hex(self.addr), fn=self.fn.sig, args=[hex(v) if isinstance(v, int) else [hex(x) for x in v] for v in self.vals], sender=hex(self.sender), value=self.value, dt=self.dt)

    def data(self):
        return self.fn.selector + abi.encode_tuple([t for _, t in self.fn.params], self.vals)


def is_panic1(ok, ret, kind):
    return (not ok) and kind == "revert" and len(ret) == 36 and int.from_bytes(ret[:4], "big") == A.PANIC_SEL and int.from_bytes(ret[4:], "big") == 1


def start_world(c):
    W, ev, fl = A.deploy(c.test)
    if W is None:
        return None
    ok, ret, kind = ev.call(foundry.TEST, foundry.CALLER, 0, c.test.fns[0].selector, transfer=False)
    if not ok:
        return None
    W.clear_transient()
    return W, ev


def apply_raw(W, ev, to, sender, origin, value, data, ts):
    """one top-level transaction as Foundry performs it: value moves from the sender (funded as needed) to the callee"""
    ev.origin = origin
    ev.block["timestamp"] = ts
    if value:
        W.get(sender).balance += value
    try:
        r = ev.call(to, sender, value, data, transfer=True)
    except foundry.TestFailed:
        r = (False, b"", "test-failed")
    W.clear_transient()
    return r


def check_invariants(c, W, ev, ts):
    """names of the invariants that fail in this state"""
    broken = []
    ev.origin = foundry.CALLER
    ev.block["timestamp"] = ts
    for fn in c.invs:
        try:
            r = ev.call(foundry.TEST, foundry.CALLER, 0, fn.selector, transfer=False)
        except foundry.TestFailed:
            broken.append(fn.sig)
            continue
        if is_panic1(*r):
            broken.append(fn.sig)
    return broken


def state_key(c, W, ts):
    k = []
    dyn = sorted(a for a, acct in W.acc.items() if getattr(c, "dynamic", None) and acct.code and bytes(acct.code) in c.dynamic and a not in c.contracts)
    for a in dyn:
        acct = W.get(a)
        k.append((a, bytes(acct.code)[:8], tuple(sorted((s, v) for s, v in acct.storage.items() if v))))
    for a in sorted(c.contracts):
        acct = W.get(a)
        k.append((a, tuple(sorted((s, v) for s, v in acct.storage.items() if v)), acct.balance))
    return (tuple(k), ts if c.meta.get("time") else 0)


def run_calls(c, seq):
    """-> (W, ev, ts, last_result) or None"""
    sw = start_world(c)
    if sw is None:
        return None
    W, ev = sw
    ts = 1
    last = None
    for call in seq:
        last = apply_raw(W, ev, call.addr, call.sender, call.sender, call.value, call.data(), ts)
        ts += call.dt  # the timestamp may advance after every transaction
    return W, ev, ts, last


def oracle(c, depth, max_nodes=4000):
    """-> dict(inv={sig: shortest breaking sequence}, probe={(addr, fn sig): sequence ending in the asserting call}, explored, truncated, states)"""
    fns, pred, senders = allowed(c)
    calls = []
    for a, fn in fns:
        doms = [domain(c, t) for _, t in fn.params]
        values = c.meta.get("values", [0]) if fn.mutability == "payable" else [0]
        dts = [0, 1] if c.meta.get("time") else [0]
        snd = senders if c.kind == "owner" else senders[:1]  # the sender only matters to the owner-checking target
        for vals in itertools.product(*doms):
            for s in snd:
                for v in values:
                    for dt in dts:
                        calls.append(Call(a, fn, list(vals), s, v, dt))
    def dyn_calls(W):
        extra = []
        if getattr(c, "dynamic", None):
            for a, acct in list(W.acc.items()):
                spec = c.dynamic.get(bytes(acct.code)) if acct.code else None
                if spec is not None and a not in c.contracts:
                    for fn in spec.fns:
                        if fn.mutability not in ("view", "pure"):
                            extra.append(Call(a, fn, [], senders[0], 0, 0))
        return extra

    out = dict(inv={}, probe={}, explored=0, truncated=False, states=0, calls=len(calls), no_senders=not senders)
    r0 = run_calls(c, [])
    if r0 is None:
        out["truncated"] = True
        return out
    W, ev, ts, _ = r0
    for sig in check_invariants(c, W, ev, ts):
        out["inv"].setdefault(sig, [])
    seen = {state_key(c, W, ts)}
    frontier = [[]]
    for d in range(1, depth + 1):
        nxt = []
        for seq in frontier:
            if getattr(c, "dynamic", None):
                r_ = run_calls(c, seq)
                here = calls + (dyn_calls(r_[0]) if r_ else [])
            else:
                here = calls
            for call in here:
                out["explored"] += 1
                if out["explored"] > max_nodes:
                    out["truncated"] = True
                    out["states"] = len(seen)
                    return out
                s2 = seq + [call]
                W, ev, ts, last = run_calls(c, s2)
                if is_panic1(*last) or last[2] == "test-failed":
                    out["probe"].setdefault((call.addr, call.fn.sig), s2)
                    continue
                if not last[0]:
                    continue
                k = state_key(c, W, ts)
                if k in seen:
                    continue
                seen.add(k)
                for sig in check_invariants(c, W, ev, ts):
                    out["inv"].setdefault(sig, s2)
                nxt.append(s2)
        frontier = nxt
    out["states"] = len(seen)
    return out
