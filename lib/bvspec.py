"""Independent word-level EVM semantics (yellow paper), as Python-int functions and as z3
specifications.  Shares nothing with halmos.bitvec."""

import z3

W = 256
M = (1 << W) - 1


def s(x, w=W):
    return x - (1 << w) if x >> (w - 1) else x


def u(x, w=W):
    return x & ((1 << w) - 1)


def _sdiv(a, b):
    if b == 0:
        return 0
    sa, sb = s(a), s(b)
    q = abs(sa) // abs(sb)
    return u(q if (sa < 0) == (sb < 0) else -q)


def _smod(a, b):
    if b == 0:
        return 0
    sa, sb = s(a), s(b)
    r = abs(sa) % abs(sb)
    return u(-r if sa < 0 else r)


def _signextend(k, x):
    if k >= 31:
        return x
    bit = 8 * k + 7
    mask = (1 << (bit + 1)) - 1
    return u(x | (M ^ mask)) if (x >> bit) & 1 else x & mask


def _sar(sh, x):
    sx = s(x)
    if sh >= 256:
        return M if sx < 0 else 0
    return u(sx >> sh)


# name -> (opcode, arity, python reference taking operands in *stack order* (top first))
PY = {
    "ADD": (0x01, 2, lambda a, b: u(a + b)),
    "MUL": (0x02, 2, lambda a, b: u(a * b)),
    "SUB": (0x03, 2, lambda a, b: u(a - b)),
    "DIV": (0x04, 2, lambda a, b: a // b if b else 0),
    "SDIV": (0x05, 2, _sdiv),
    "MOD": (0x06, 2, lambda a, b: a % b if b else 0),
    "SMOD": (0x07, 2, _smod),
    "ADDMOD": (0x08, 3, lambda a, b, n: (a + b) % n if n else 0),
    "MULMOD": (0x09, 3, lambda a, b, n: (a * b) % n if n else 0),
    "EXP": (0x0A, 2, lambda a, b: pow(a, b, 1 << 256)),
    "SIGNEXTEND": (0x0B, 2, _signextend),
    "LT": (0x10, 2, lambda a, b: int(a < b)),
    "GT": (0x11, 2, lambda a, b: int(a > b)),
    "SLT": (0x12, 2, lambda a, b: int(s(a) < s(b))),
    "SGT": (0x13, 2, lambda a, b: int(s(a) > s(b))),
    "EQ": (0x14, 2, lambda a, b: int(a == b)),
    "ISZERO": (0x15, 1, lambda a: int(a == 0)),
    "AND": (0x16, 2, lambda a, b: a & b),
    "OR": (0x17, 2, lambda a, b: a | b),
    "XOR": (0x18, 2, lambda a, b: a ^ b),
    "NOT": (0x19, 1, lambda a: M ^ a),
    "BYTE": (0x1A, 2, lambda i, x: (x >> (8 * (31 - i))) & 0xFF if i < 32 else 0),
    "SHL": (0x1B, 2, lambda sh, x: u(x << sh) if sh < 256 else 0),
    "SHR": (0x1C, 2, lambda sh, x: x >> sh if sh < 256 else 0),
    "SAR": (0x1D, 2, _sar),
}


def _b2w(c):
    return z3.If(c, z3.BitVecVal(1, W), z3.BitVecVal(0, W))


def _z_addmod(a, b, n):
    # any width >= 257 is exact; 264 keeps the term close to byte-aligned encodings (cheaper to discharge)
    r = z3.URem(z3.ZeroExt(8, a) + z3.ZeroExt(8, b), z3.ZeroExt(8, n))
    return z3.If(n == 0, z3.BitVecVal(0, W), z3.Extract(W - 1, 0, r))


def _z_mulmod(a, b, n):
    r = z3.URem(z3.ZeroExt(W, a) * z3.ZeroExt(W, b), z3.ZeroExt(W, n))
    return z3.If(n == 0, z3.BitVecVal(0, W), z3.Extract(W - 1, 0, r))


def _z_signextend(k, x):
    # k, x symbolic words
    e = x
    for i in range(30, -1, -1):
        bl = (i + 1) * 8
        e = z3.If(k == i, z3.SignExt(W - bl, z3.Extract(bl - 1, 0, x)), e)
    return e


def _z_byte(i, x):
    sh = (z3.BitVecVal(31, W) - i) * 8
    return z3.If(z3.UGE(i, 32), z3.BitVecVal(0, W), z3.LShR(x, sh) & 0xFF)


def _z_sar(sh, x):
    return z3.If(z3.UGE(sh, 256), z3.If(x < 0, z3.BitVecVal(M, W), z3.BitVecVal(0, W)), x >> sh)


Z = {
    "ADD": lambda a, b: a + b,
    "MUL": lambda a, b: a * b,
    "SUB": lambda a, b: a - b,
    "DIV": lambda a, b: z3.If(b == 0, z3.BitVecVal(0, W), z3.UDiv(a, b)),
    "SDIV": lambda a, b: z3.If(b == 0, z3.BitVecVal(0, W), a / b),
    "MOD": lambda a, b: z3.If(b == 0, z3.BitVecVal(0, W), z3.URem(a, b)),
    "SMOD": lambda a, b: z3.If(b == 0, z3.BitVecVal(0, W), z3.SRem(a, b)),
    "ADDMOD": _z_addmod,
    "MULMOD": _z_mulmod,
    "SIGNEXTEND": _z_signextend,
    "LT": lambda a, b: _b2w(z3.ULT(a, b)),
    "GT": lambda a, b: _b2w(z3.UGT(a, b)),
    "SLT": lambda a, b: _b2w(a < b),
    "SGT": lambda a, b: _b2w(a > b),
    "EQ": lambda a, b: _b2w(a == b),
    "ISZERO": lambda a: _b2w(a == 0),
    "AND": lambda a, b: a & b,
    "OR": lambda a, b: a | b,
    "XOR": lambda a, b: a ^ b,
    "NOT": lambda a: ~a,
    "BYTE": _z_byte,
    "SHL": lambda sh, x: z3.If(z3.UGE(sh, 256), z3.BitVecVal(0, W), x << sh),
    "SHR": lambda sh, x: z3.If(z3.UGE(sh, 256), z3.BitVecVal(0, W), z3.LShR(x, sh)),
    "SAR": _z_sar,
}

BOUNDARY = [
    0, 1, 2, 3, 7, 8, 31, 32, 33, 255, 256, 257, 2**64, 2**128 - 1, 2**128, 2**255 - 1, 2**255, 2**255 + 1,
    2**256 - 256, 2**256 - 2, 2**256 - 1,
]
