"""Controlled scheduler for threaded Python code (C17).  Every thread that executes a line of one of the
*controlled files* parks at that line until the scheduler grants it one step, so an interleaving is a sequence of
choices among parked threads and enabled *environment actions* (simulated process exit, timeout expiry, ...).
Only places where the real code can be preempted (its own line events) are yield points.  A granted thread that
does not reach its next yield point within `quantum` seconds is treated as blocked (lock, Future.result, join) and
keeps running in the background; blocking inside the simulated environment is announced explicitly.

The scheduler records the choice list (thread label / action name, line) of every run."""

from __future__ import annotations

import os
import sys
import threading
import time


class Sched:
    def __init__(self, chooser, files, quantum=0.004, max_steps=1500, idle_limit=4.0):
        self.chooser = chooser
        self.files = set(files)
        self.quantum = quantum
        self.max_steps = max_steps
        self.idle_limit = idle_limit
        self.cv = threading.Condition()
        self.parked = {}  # tid -> (label, line)
        self.granted = None
        self.envblocked = set()
        self.labels = {}
        self.counter = {}
        self.trace = []
        self.step = 0
        self.stop = False
        self.stalled = False
        self.env_actions = lambda: []
        self.errors = []
        self.base_threads = set()
        self.pending_labels = []
        self.idle_hint = 0
        self.uncertain = False  # the run ended by a watchdog (time / step budget), not by established quiescence
        self.probes = 0
        self.release = False  # set by the harness after judging: simulated blocking calls give up

    def wait_until_step(self, n):
        """used by harness threads (outside the controlled files) to enter the game late; gives up as soon as nothing else can move"""
        h = self.idle_hint
        with self.cv:
            while self.step < n and not self.stop and self.idle_hint == h:
                self.cv.wait(0.05)

    # ---- labels: deterministic names for threads in creation order ("h0", "h1" for harness threads, "w0", "w1" ... for workers)
    def label(self, tid):
        th = threading.current_thread()
        lb = getattr(th, "_sched_label", None) if getattr(th, "_sched_owner", None) is self else None
        if lb is None:
            name = th.name
            if name.startswith("H:"):
                lb = name[2:]
            else:
                n = self.counter.get("w", 0)
                self.counter["w"] = n + 1
                lb = f"w{n}"
            th._sched_label, th._sched_owner = lb, self
        return lb

    # ---- tracing
    def global_trace(self, frame, event, arg):
        if frame.f_code.co_filename in self.files:
            return self.local_trace
        return None

    def local_trace(self, frame, event, arg):
        if event == "line" and not self.stop:
            self.park(frame.f_lineno)
        return self.local_trace

    def park(self, line):
        tid = threading.get_ident()
        with self.cv:
            self.parked[tid] = (self.label(tid), line)
            self.cv.notify_all()
            while self.granted != tid and not self.stop:
                self.cv.wait(0.5)
            if self.granted == tid:
                self.granted = None
            self.parked.pop(tid, None)
            self.cv.notify_all()

    # ---- environment blocking (called by the simulated Popen / psutil)
    def env_wait(self, predicate, cv):
        """block the calling thread until predicate() holds; the scheduler knows immediately that it is blocked"""
        tid = threading.get_ident()
        with self.cv:
            self.envblocked.add(tid)
            if getattr(self, "running", None) == tid:
                self.running = None
            self.cv.notify_all()
        with cv:
            while not predicate() and not self.release:
                cv.wait(0.05)
        with self.cv:
            self.envblocked.discard(tid)
        if not self.stop:
            self.park(-1)

    # ---- quiescence: decided on the kernel's thread states, not on elapsed time
    def all_asleep(self, threads):
        """True iff no thread of this process other than the scheduler (and the pre-existing ones) is running or runnable.  The states
        are read by a child process while the scheduler thread is blocked (GIL released), so threads that merely wait for the
        interpreter lock do not look asleep because of the observer."""
        import subprocess

        me = threading.get_native_id()
        skip = {t.native_id for t in self.base_threads} | {me}
        try:
            out = subprocess.run(["sh", "-c", f"cat /proc/{os.getpid()}/task/*/stat 2>/dev/null"], capture_output=True, text=True, timeout=5).stdout
        except Exception:  # noqa
            return False
        self.probes += 1
        for line in out.splitlines():
            try:
                tid = int(line.split(" ", 1)[0])
                state = line.rsplit(")", 1)[1].split()[0]
            except (ValueError, IndexError):
                continue
            if tid in skip:
                continue
            if state in ("R", "D"):
                return False
        return True

    # ---- main loop
    def run(self, threads, budget=20.0):
        t_end = time.time() + budget
        self.running = None
        threading.settrace(self.global_trace)
        try:
            for t in threads:
                t.start()
            idle_since = None
            while time.time() < t_end and self.step < self.max_steps:
                with self.cv:
                    # wait for the running thread to park again, block, or exhaust its quantum
                    while self.granted is not None and time.time() < t_end:
                        self.cv.wait(0.01)
                    t0 = time.time()
                    while self.running is not None and self.running not in self.parked and self.running not in self.envblocked and time.time() - t0 < self.quantum:
                        self.cv.wait(self.quantum / 4)
                    self.running = None
                    enabled = [("t", tid, lb, line) for tid, (lb, line) in sorted(self.parked.items(), key=lambda kv: kv[1][0])]
                    enabled += [("e", fn, name, 0) for name, fn in self.env_actions()]
                    if not enabled:
                        alive = [t for t in threads if t.is_alive()]
                        others = [t for t in threading.enumerate() if t not in self.base_threads and t not in threads]
                        if not alive and not others:
                            break
                        self.idle_hint += 1
                        self.cv.notify_all()
                        if idle_since is None:
                            idle_since = time.time()
                            asleep_seen = 0
                        elif time.time() - idle_since > self.idle_limit:
                            # watchdog: quiescence could not be established -> the end state is not judged for liveness
                            self.stalled = True
                            self.uncertain = True
                            break
                        need_probe = time.time() - idle_since > 0.01
                        if not need_probe:
                            self.cv.wait(0.004)
                            continue
                    else:
                        need_probe = False
                        idle_since = None
                if need_probe:
                    # outside the scheduler lock: threads may park meanwhile
                    if self.all_asleep(threads):
                        with self.cv:
                            if not self.parked and not self.env_actions():
                                asleep_seen += 1
                        if asleep_seen >= 2:
                            self.stalled = True
                            break
                        time.sleep(0.01)
                    else:
                        asleep_seen = 0
                        time.sleep(0.005)
                    continue
                with self.cv:
                    kind, obj, name, line = self.chooser(self, enabled)
                    self.step += 1
                    self.trace.append((name, line))
                    if kind == "t":
                        self.parked.pop(obj, None)
                        self.granted = obj
                        self.running = obj
                        self.cv.notify_all()
                if kind == "e":
                    obj()
            else:
                self.uncertain = True  # time or step budget exhausted
        finally:
            with self.cv:
                self.stop = True
                self.cv.notify_all()
            threading.settrace(None)


# ------------------------------------------------------------------------------------------ choosers
def random_chooser(rng):
    def choose(s, enabled):
        return rng.choice(enabled)

    return choose


def sticky_chooser(rng, p=0.8):
    last = [None]

    def choose(s, enabled):
        for e in enabled:
            if e[2] == last[0] and rng.random() < p:
                return e
        e = rng.choice(enabled)
        last[0] = e[2]
        return e

    return choose


def preempt_chooser(points, order_seed=0):
    """non-preemptive baseline (keep running the same thread while it is enabled; threads before environment actions; fixed
    order) with forced switches: points = {step: k} -> at that step take the k-th *other* enabled choice"""
    last = [None]

    def choose(s, enabled):
        ths = [e for e in enabled if e[0] == "t"]
        envs = [e for e in enabled if e[0] == "e"]
        ordered = ths + envs
        cur = next((e for e in ordered if e[2] == last[0]), None)
        base = cur or ordered[0]
        if s.step in points:
            alts = [e for e in ordered if e is not base]
            if alts:
                base = alts[points[s.step] % len(alts)]
        last[0] = base[2]
        return base

    return choose


def pct_chooser(rng, depth=2, horizon=120):
    """PCT (Burckhardt et al.): random distinct priorities per thread / action name, always run the highest-priority enabled
    choice, and at depth-1 random steps drop the priority of the choice taken there below all others"""
    prio = {}
    change = set(rng.sample(range(horizon), max(0, depth - 1)))
    low = [0.0]

    def choose(s, enabled):
        for e in enabled:
            if e[2] not in prio:
                prio[e[2]] = rng.random() + 1.0
        e = max(enabled, key=lambda x: prio[x[2]])
        if s.step in change:
            low[0] -= 1.0
            prio[e[2]] = low[0]
        return e

    return choose
