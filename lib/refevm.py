"""Independent concrete EVM (gas-free Cancun subset) used as the reference oracle.

Written from the yellow paper / EIPs, sharing no code with halmos.  Gas is not modelled:
GAS, GASPRICE, BLOCKHASH and non-identity precompiles raise `Unsupported` (the case is then
skipped by the caller) unless an `oracle` callback supplies their values.  Memory beyond
MAXMEM is an out-of-gas halt (halmos' documented modelling assumption).

The machine records a trace of *features exercised* so that checks can (a) report what the
workload covered and (b) recognise — on the reference side, never on halmos' output — that
a case contains the trigger of a known finding."""

from __future__ import annotations

from eth_hash.auto import keccak

M = (1 << 256) - 1
A160 = (1 << 160) - 1
MAXMEM = 2**20
MAX_DEPTH = 1024


def s256(x):
    return x - (1 << 256) if x >> 255 else x


def keccak_int(b: bytes) -> int:
    return int.from_bytes(keccak(b), "big")


class Halt(Exception):
    """exceptional halt of the current frame"""

    def __init__(self, kind):
        super().__init__(kind)
        self.kind = kind


class Revert(Exception):
    def __init__(self, data):
        super().__init__("revert")
        self.data = data


class Unsupported(Exception):
    """the program used something the reference does not model (case is skipped)"""


class StepBudget(Exception):
    pass


class Account:
    __slots__ = ("code", "balance", "storage", "tstorage", "nonce")

    def __init__(self, code=b"", balance=0, storage=None, nonce=0):
        self.code = code
        self.balance = balance
        self.storage = dict(storage or {})
        self.tstorage = {}
        self.nonce = nonce

    def copy(self):
        a = Account(self.code, self.balance, self.storage, self.nonce)
        a.tstorage = dict(self.tstorage)
        return a


class World:
    def __init__(self):
        self.acc: dict[int, Account] = {}

    def get(self, a) -> Account:
        acc = self.acc.get(a)
        if acc is None:
            acc = self.acc[a] = Account()
        return acc

    def exists(self, a):
        acc = self.acc.get(a)
        return acc is not None and (acc.code or acc.balance or acc.nonce)

    def snapshot(self):
        return {k: v.copy() for k, v in self.acc.items()}

    def restore(self, snap):
        self.acc = snap

    def clear_transient(self):
        for a in self.acc.values():
            a.tstorage = {}

    def total_balance(self):
        return sum(a.balance for a in self.acc.values())


def jumpdests(code: bytes) -> set:
    out = set()
    pc = 0
    n = len(code)
    while pc < n:
        op = code[pc]
        if op == 0x5B:
            out.add(pc)
        pc += 1 + (op - 0x5F if 0x60 <= op <= 0x7F else 0)
    return out


class Frame:
    __slots__ = ("addr", "caller", "value", "data", "code", "static", "depth", "is_create", "prank")

    def __init__(self, **kw):
        self.prank = None
        for k, v in kw.items():
            setattr(self, k, v)


DEFAULT_BLOCK = dict(basefee=0, chainid=31337, coinbase=0, difficulty=0, gaslimit=2**63 - 1, number=1, timestamp=1)


class EVM:
    def __init__(self, world: World, block=None, origin=0, newaddr=None, step_budget=300_000, oracle=None):
        self.w = world
        self.block = dict(block or DEFAULT_BLOCK)
        self.origin = origin
        self.newaddr = newaddr  # callback(evm, creator, salt|None, initcode) -> address
        self.steps = step_budget
        self.oracle = oracle  # callback(name, *args) -> int  for gas-like values
        self.logs = []
        self.created = []
        self.hooks = {}  # address -> handler(evm, frame, op, to, value, args) -> (ok, ret)
        self.frames = []
        self.tr = {
            "ops": {},
            "maxstack": 0,
            "maxdepth": 0,
            "sha_pre": [],
            "msize_after_read_expansion": False,
            "read_expanded": False,
            "returndatacopy_zero_oob": False,
            "static_value_call": False,
            "callcode_value": False,
            "callcode_insufficient": False,
            "sha3_85_ff": False,
            "frames": [],  # (kind, outcome)
            "rollbacks_with_writes": 0,
            "insufficient_funds": 0,
            "create_collisions": 0,
            "slots": set(),
            "addrs": set(),
            "mem_high": 0,
        }

    # ------------------------------------------------------------------ message call
    def call(self, target, caller, value, data, code_addr=None, static=False, depth=1, transfer=True,
             is_create=False, initcode=None, kind="CALL", prank=None):
        """returns (ok, retdata, failure kind | None).  State is rolled back on failure."""
        tr = self.tr
        if depth > MAX_DEPTH:
            tr["frames"].append((kind, "depth"))
            return (False, b"", "depth")
        tr["maxdepth"] = max(tr["maxdepth"], depth)
        tr["addrs"].add(target)
        snap = self.w.snapshot()
        nlogs = len(self.logs)
        ncreated = len(self.created)
        if transfer and value:
            src = self.w.get(caller)
            if src.balance < value:
                tr["insufficient_funds"] += 1
                tr["frames"].append((kind, "funds"))
                return (False, b"", "funds")
            src.balance -= value
            self.w.get(target).balance += value
        ca = code_addr if code_addr is not None else target
        if not is_create and ca in self.hooks:
            f = Frame(addr=target, caller=caller, value=value, data=data, code=b"", static=static, depth=depth, is_create=False)
            try:
                ok, ret = self.hooks[ca](self, f, kind, ca, value, data)
            except Revert as r:
                self.w.restore(snap)
                return (False, r.data, "revert")
            return (ok, ret, None if ok else "revert")
        if not is_create and 1 <= ca <= 10:
            if ca == 4:
                tr["frames"].append((kind, "identity"))
                return (True, data, None)
            raise Unsupported(f"precompile {ca}")
        code = initcode if is_create else self.w.get(ca).code
        f = Frame(addr=target, caller=caller, value=value, data=b"" if is_create else data, code=code,
                  static=static, depth=depth, is_create=is_create, prank=prank)
        writes_before = tr.get("_writes", 0)
        self.frames.append(f)
        try:
            ret = self.run(f)
            tr["frames"].append((kind, "ok"))
            return (True, ret, None)
        except Revert as r:
            if tr.get("_writes", 0) > writes_before:
                tr["rollbacks_with_writes"] += 1
            self.w.restore(snap)
            del self.logs[nlogs:]
            del self.created[ncreated:]
            tr["frames"].append((kind, "revert"))
            return (False, r.data, "revert")
        except Halt as h:
            if tr.get("_writes", 0) > writes_before:
                tr["rollbacks_with_writes"] += 1
            self.w.restore(snap)
            del self.logs[nlogs:]
            del self.created[ncreated:]
            tr["frames"].append((kind, "halt:" + h.kind))
            return (False, b"", h.kind)
        finally:
            self.frames.pop()

    # hook for the Foundry layer: (caller, origin) seen by a call/create made by frame f
    def resolve_prank(self, f, to):
        return f.addr, None

    # ------------------------------------------------------------------ interpreter
    def run(self, f: Frame) -> bytes:
        code = f.code
        ncode = len(code)
        st = []
        mem = bytearray()
        pc = 0
        jd = jumpdests(code)
        ret = b""
        w = self.w
        tr = self.tr
        ops = tr["ops"]

        def pop():
            if not st:
                raise Halt("underflow")
            return st.pop()

        def push(v):
            st.append(v & M)
            if len(st) > tr["maxstack"]:
                tr["maxstack"] = len(st)
            if len(st) > 1024:
                raise Halt("overflow")

        def expand(off, size, read=False):
            if size == 0:
                return
            if off + size > MAXMEM:
                raise Halt("oog")
            need = (off + size + 31) // 32 * 32
            if need > len(mem):
                if read:
                    tr["read_expanded"] = True
                mem.extend(bytes(need - len(mem)))
                if need > tr["mem_high"]:
                    tr["mem_high"] = need

        def mread(off, size):
            if size == 0:
                return b""
            if size > MAXMEM:
                raise Halt("oog")
            expand(off, size, read=True)
            return bytes(mem[off : off + size])

        def mwrite(off, data):
            if not data:
                return
            expand(off, len(data))
            mem[off : off + len(data)] = data

        def pad(b, off, size):
            if size > MAXMEM:
                raise Halt("oog")
            if off >= len(b):
                return bytes(size)
            x = b[off : off + size]
            return bytes(x) + bytes(size - len(x))

        while True:
            self.steps -= 1
            if self.steps < 0:
                raise StepBudget()
            op = code[pc] if pc < ncode else 0
            ops[op] = ops.get(op, 0) + 1
            npc = pc + 1
            if 0x60 <= op <= 0x7F:
                n = op - 0x5F
                push(int.from_bytes(pad(code, pc + 1, n), "big"))
                npc = pc + 1 + n
            elif 0x80 <= op <= 0x8F:
                n = op - 0x7F
                if len(st) < n:
                    raise Halt("underflow")
                push(st[-n])
            elif 0x90 <= op <= 0x9F:
                n = op - 0x8F
                if len(st) < n + 1:
                    raise Halt("underflow")
                st[-1], st[-n - 1] = st[-n - 1], st[-1]
            elif op == 0x00:
                return b""
            elif op == 0x01:
                push(pop() + pop())
            elif op == 0x02:
                push(pop() * pop())
            elif op == 0x03:
                a, b = pop(), pop()
                push(a - b)
            elif op == 0x04:
                a, b = pop(), pop()
                push(a // b if b else 0)
            elif op == 0x05:
                a, b = s256(pop()), s256(pop())
                push(0 if b == 0 else (abs(a) // abs(b)) * (1 if (a < 0) == (b < 0) else -1))
            elif op == 0x06:
                a, b = pop(), pop()
                push(a % b if b else 0)
            elif op == 0x07:
                a, b = s256(pop()), s256(pop())
                push(0 if b == 0 else (abs(a) % abs(b)) * (-1 if a < 0 else 1))
            elif op == 0x08:
                a, b, n = pop(), pop(), pop()
                push((a + b) % n if n else 0)
            elif op == 0x09:
                a, b, n = pop(), pop(), pop()
                push((a * b) % n if n else 0)
            elif op == 0x0A:
                a, b = pop(), pop()
                push(pow(a, b, 1 << 256))
            elif op == 0x0B:
                b, x = pop(), pop()
                if b < 31:
                    bit = b * 8 + 7
                    mask = (1 << (bit + 1)) - 1
                    x = (x | (M ^ mask)) if (x >> bit) & 1 else (x & mask)
                push(x)
            elif op == 0x10:
                a, b = pop(), pop()
                push(int(a < b))
            elif op == 0x11:
                a, b = pop(), pop()
                push(int(a > b))
            elif op == 0x12:
                a, b = pop(), pop()
                push(int(s256(a) < s256(b)))
            elif op == 0x13:
                a, b = pop(), pop()
                push(int(s256(a) > s256(b)))
            elif op == 0x14:
                push(int(pop() == pop()))
            elif op == 0x15:
                push(int(pop() == 0))
            elif op == 0x16:
                push(pop() & pop())
            elif op == 0x17:
                push(pop() | pop())
            elif op == 0x18:
                push(pop() ^ pop())
            elif op == 0x19:
                push(M ^ pop())
            elif op == 0x1A:
                i, x = pop(), pop()
                push((x >> (8 * (31 - i))) & 0xFF if i < 32 else 0)
            elif op == 0x1B:
                sh, x = pop(), pop()
                push(x << sh if sh < 256 else 0)
            elif op == 0x1C:
                sh, x = pop(), pop()
                push(x >> sh if sh < 256 else 0)
            elif op == 0x1D:
                sh, x = pop(), s256(pop())
                push((x >> sh) if sh < 256 else (-1 if x < 0 else 0))
            elif op == 0x20:
                off, size = pop(), pop()
                d = mread(off, size)
                tr["sha_pre"].append(d)
                if len(d) == 85 and d[0] == 0xFF:
                    tr["sha3_85_ff"] = True
                push(keccak_int(d))
            elif op == 0x30:
                push(f.addr)
            elif op == 0x31:
                a = pop() & A160
                tr["addrs"].add(a)
                push(w.get(a).balance)
            elif op == 0x32:
                push(self.origin)
            elif op == 0x33:
                push(f.caller)
            elif op == 0x34:
                push(f.value)
            elif op == 0x35:
                off = pop()
                push(int.from_bytes(pad(f.data, off, 32), "big"))
            elif op == 0x36:
                push(len(f.data))
            elif op == 0x37:
                d, o, s = pop(), pop(), pop()
                mwrite(d, pad(f.data, o, s))
            elif op == 0x38:
                push(ncode)
            elif op == 0x39:
                d, o, s = pop(), pop(), pop()
                mwrite(d, pad(code, o, s))
            elif op == 0x3A:
                push(self._oracle("gasprice"))
            elif op == 0x3B:
                a = pop() & A160
                push(self.extcodesize(a))
            elif op == 0x3C:
                a, d, o, s = pop(), pop(), pop(), pop()
                mwrite(d, pad(w.get(a & A160).code, o, s))
            elif op == 0x3D:
                push(len(ret))
            elif op == 0x3E:
                d, o, s = pop(), pop(), pop()
                if o + s > len(ret):
                    if s == 0:
                        tr["returndatacopy_zero_oob"] = True
                    raise Halt("oob")
                mwrite(d, ret[o : o + s])
            elif op == 0x3F:
                a = pop() & A160
                push(self.extcodehash(a))
            elif op == 0x40:
                push(self._oracle("blockhash", pop()))
            elif op == 0x41:
                push(self.block["coinbase"])
            elif op == 0x42:
                push(self.block["timestamp"])
            elif op == 0x43:
                push(self.block["number"])
            elif op == 0x44:
                push(self.block["difficulty"])
            elif op == 0x45:
                push(self.block["gaslimit"])
            elif op == 0x46:
                push(self.block["chainid"])
            elif op == 0x47:
                push(w.get(f.addr).balance)
            elif op == 0x48:
                push(self.block["basefee"])
            elif op == 0x50:
                pop()
            elif op == 0x51:
                off = pop()
                push(int.from_bytes(mread(off, 32), "big"))
            elif op == 0x52:
                off, v = pop(), pop()
                if off + 32 > MAXMEM:
                    raise Halt("oog")
                mwrite(off, v.to_bytes(32, "big"))
            elif op == 0x53:
                off, v = pop(), pop()
                if off + 1 > MAXMEM:
                    raise Halt("oog")
                mwrite(off, bytes([v & 0xFF]))
            elif op == 0x54:
                k = pop()
                tr["slots"].add((f.addr, k))
                push(w.get(f.addr).storage.get(k, 0))
            elif op == 0x55:
                k, v = pop(), pop()
                if f.static:
                    raise Halt("static")
                tr["slots"].add((f.addr, k))
                tr["_writes"] = tr.get("_writes", 0) + 1
                w.get(f.addr).storage[k] = v
            elif op == 0x56:
                d = pop()
                if d not in jd:
                    raise Halt("badjump")
                npc = d
            elif op == 0x57:
                d, c = pop(), pop()
                if c:
                    if d not in jd:
                        raise Halt("badjump")
                    npc = d
            elif op == 0x58:
                push(pc)
            elif op == 0x59:
                if tr["read_expanded"]:
                    tr["msize_after_read_expansion"] = True
                push(len(mem))
            elif op == 0x5A:
                push(self._oracle("gas"))
            elif op == 0x5B:
                pass
            elif op == 0x5C:
                push(w.get(f.addr).tstorage.get(pop(), 0))
            elif op == 0x5D:
                k, v = pop(), pop()
                if f.static:
                    raise Halt("static")
                tr["_writes"] = tr.get("_writes", 0) + 1
                w.get(f.addr).tstorage[k] = v
            elif op == 0x5E:
                d, s_, n = pop(), pop(), pop()
                if n:
                    if n > MAXMEM:
                        raise Halt("oog")
                    data = mread(s_, n)
                    mwrite(d, data)
            elif op == 0x5F:
                push(0)
            elif 0xA0 <= op <= 0xA4:
                if f.static:
                    raise Halt("static")
                off, size = pop(), pop()
                topics = [pop() for _ in range(op - 0xA0)]
                tr["_writes"] = tr.get("_writes", 0) + 1
                self.logs.append((f.addr, topics, mread(off, size)))
            elif op in (0xF1, 0xF2, 0xF4, 0xFA):
                pop()  # gas
                to = pop() & A160
                val = pop() if op in (0xF1, 0xF2) else 0
                ao, asz, ro, rsz = pop(), pop(), pop(), pop()
                args = mread(ao, asz)
                if rsz:
                    expand(ro, rsz)
                if op == 0xF1 and val and f.static:
                    tr["static_value_call"] = True
                    raise Halt("static")
                sender, origin_override = self.resolve_prank(f, to)
                saved_origin = self.origin
                if origin_override is not None:
                    self.origin = origin_override
                try:
                    if op == 0xF1:
                        r = self.call(to, sender, val, args, static=f.static, depth=f.depth + 1, kind="CALL")
                    elif op == 0xFA:
                        r = self.call(to, sender, 0, args, static=True, depth=f.depth + 1, kind="STATICCALL")
                    elif op == 0xF4:
                        r = self.call(f.addr, f.caller, f.value, args, code_addr=to, static=f.static,
                                      depth=f.depth + 1, transfer=False, kind="DELEGATECALL")
                    else:
                        if val:
                            tr["callcode_value"] = True
                        if w.get(f.addr).balance < val:
                            tr["insufficient_funds"] += 1
                            tr["callcode_insufficient"] = True
                            r = (False, b"", "funds")
                        else:
                            r = self.call(f.addr, sender, val, args, code_addr=to, static=f.static,
                                          depth=f.depth + 1, transfer=False, kind="CALLCODE")
                finally:
                    self.origin = saved_origin
                ok, ret, kind = r
                n = min(rsz, len(ret))
                if n:
                    mwrite(ro, ret[:n])
                push(int(ok))
            elif op in (0xF0, 0xF5):
                if f.static:
                    raise Halt("static")
                val, off, size = pop(), pop(), pop()
                salt = pop() if op == 0xF5 else None
                init = mread(off, size)
                ret = b""
                kindname = "CREATE2" if op == 0xF5 else "CREATE"
                sender, origin_override = self.resolve_prank(f, None)
                if self.newaddr is None:
                    raise Unsupported("creation without an address script")
                na = self.newaddr(self, sender, salt, init)
                if w.get(sender).balance < val:
                    tr["insufficient_funds"] += 1
                    tr["frames"].append((kindname, "funds"))
                    push(0)
                elif f.depth + 1 > MAX_DEPTH:
                    push(0)
                else:
                    acc = w.acc.get(na)
                    if acc is not None and (acc.code or acc.nonce):
                        tr["create_collisions"] += 1
                        tr["frames"].append((kindname, "collision"))
                        push(0)
                    else:
                        snap = w.snapshot()
                        nlogs = len(self.logs)
                        w.get(sender).nonce += 1
                        newacc = w.get(na)
                        newacc.storage = {}
                        newacc.nonce = 1
                        saved_origin = self.origin
                        if origin_override is not None:
                            self.origin = origin_override
                        try:
                            ok, out, kind = self.call(na, sender, val, b"", static=False, depth=f.depth + 1,
                                                      is_create=True, initcode=init, kind=kindname)
                        finally:
                            self.origin = saved_origin
                        if ok and (len(out) > 24576 or out[:1] == b"\xef"):
                            self.tr["eip170_3541"] = True
                            ok, out, kind = False, b"", "codesize"
                            w.restore(snap)
                            del self.logs[nlogs:]
                        if ok:
                            w.get(na).code = out
                            self.created.append(na)
                            push(na)
                        else:
                            # the inner call already rolled back to its own snapshot (taken after
                            # the nonce bump / account creation); roll those back too
                            keep_nonce = w.get(sender).nonce
                            w.restore(snap)
                            w.get(sender).nonce = keep_nonce
                            ret = out if kind == "revert" else b""
                            push(0)
            elif op == 0xF3:
                off, size = pop(), pop()
                return mread(off, size)
            elif op == 0xFD:
                off, size = pop(), pop()
                raise Revert(mread(off, size))
            elif op == 0xFE:
                raise Halt("invalid")
            elif op == 0xFF:
                raise Unsupported("SELFDESTRUCT")
            else:
                raise Halt("invalid")
            pc = npc

    # ------------------------------------------------------------------ helpers
    def _oracle(self, name, *args):
        if self.oracle is None:
            raise Unsupported(name)
        return self.oracle(name, *args)

    def extcodesize(self, a):
        self.tr["addrs"].add(a)
        return len(self.w.get(a).code)

    def extcodehash(self, a):
        self.tr["addrs"].add(a)
        if not self.w.exists(a):
            return 0
        if not self.w.get(a).code:
            self.tr["extcodehash_codeless_existing"] = True  # known finding (C01): halmos answers 0 for every account without code
        return keccak_int(self.w.get(a).code)


def selector(sig: str) -> bytes:
    return keccak(sig.encode())[:4]
