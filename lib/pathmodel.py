"""Decide "does this path admit concrete input v, and what does it report for v".

Fold first, solve second (see DESIGN.md §1):
 1. every f_evm_bv* application is replaced by its exact definition (div/rem by zero = 0);
 2. pinned inputs are substituted into the conditions and observed terms; simplify;
 3. f_sha3_N / f_evm_exp applications on constant arguments are replaced by real keccak /
    modular power, to fixpoint;
 4. the residue goes to a fresh, non-incremental solver;
 5. remaining hash / exp applications are interpreted lazily from the model (≤ 8 rounds).
"""

from __future__ import annotations

import z3
from eth_hash.auto import keccak

ROUNDS = 8


def _walk(es):
    seen = set()
    stack = list(es)
    while stack:
        t = stack.pop()
        i = t.get_id()
        if i in seen:
            continue
        seen.add(i)
        yield t
        if z3.is_app(t):
            stack.extend(t.children())
        elif z3.is_quantifier(t):
            stack.append(t.body())


def apps_of(es, prefix, min_args=1):
    acc = {}
    for t in _walk(es):
        if z3.is_app(t) and t.num_args() >= min_args and t.decl().kind() == z3.Z3_OP_UNINTERPRETED:
            if t.decl().name().startswith(prefix):
                acc[t.get_id()] = t
    return list(acc.values())


def free_consts(es):
    acc = {}
    for t in _walk(es):
        if z3.is_const(t) and t.decl().kind() == z3.Z3_OP_UNINTERPRETED:
            acc[t.get_id()] = t
    return list(acc.values())


def _exact_body(name, d):
    w = d.range().size()
    a, b = z3.Var(0, z3.BitVecSort(w)), z3.Var(1, z3.BitVecSort(w))
    zero = z3.BitVecVal(0, w)
    op = name.split("_")[2]
    return {
        "bvudiv": z3.If(b == zero, zero, z3.UDiv(a, b)),
        "bvurem": z3.If(b == zero, zero, z3.URem(a, b)),
        "bvmul": a * b,
        "bvsdiv": z3.If(b == zero, zero, a / b),
        "bvsrem": z3.If(b == zero, zero, z3.SRem(a, b)),
    }.get(op)


def exact_defs_many(es):
    """replace the arithmetic abstractions f_evm_bv{mul,udiv,urem,sdiv,srem}_N by their exact
    EVM meaning (our own definitions, written from the yellow paper); f_evm_exp with a small
    constant exponent is read as the repeated product"""
    es = list(es)
    fs = {}
    exps = []
    for t in _walk(es):
        if z3.is_app(t) and t.num_args() == 2 and t.decl().kind() == z3.Z3_OP_UNINTERPRETED:
            n = t.decl().name()
            if n.startswith("f_evm_bv"):
                fs[n] = t.decl()
            elif n.startswith("f_evm_exp"):
                exps.append(t)
    if exps:
        reps = []
        for t in exps:
            k = t.arg(1)
            if z3.is_bv_value(k) and k.as_long() <= 16 and not z3.is_bv_value(t.arg(0)):
                prod = z3.BitVecVal(1, t.size())
                for _ in range(k.as_long()):
                    prod = prod * t.arg(0)
                reps.append((t, prod))
        if reps:
            es = [z3.substitute(e, *reps) for e in es]
    if fs:
        pairs = []
        for n, d in fs.items():
            body = _exact_body(n, d)
            if body is not None:
                pairs.append((d, body))
        if pairs:
            es = [z3.substitute_funs(e, *pairs) for e in es]
    return es


def exact_defs(e):
    return exact_defs_many([e])[0]


def _keccak_of(arg):
    n = arg.size() // 8
    return z3.BitVecVal(int.from_bytes(keccak(arg.as_long().to_bytes(n, "big")), "big"), 256)


EMPTY_KECCAK = int.from_bytes(keccak(b""), "big")


def fold_prepared(es, subs):
    """es already went through exact_defs_many"""
    es = [z3.simplify(z3.substitute(e, *subs)) if subs else z3.simplify(e) for e in es]
    for _ in range(12):
        reps = []
        for a in apps_of(es, "f_sha3_"):
            if a.num_args() == 1 and z3.is_bv_value(a.arg(0)):
                reps.append((a, _keccak_of(a.arg(0))))
        for a in apps_of(es, "f_evm_exp"):
            if z3.is_bv_value(a.arg(0)) and z3.is_bv_value(a.arg(1)):
                reps.append((a, z3.BitVecVal(pow(a.arg(0).as_long(), a.arg(1).as_long(), 1 << 256), 256)))
        if not reps:
            break
        es = [z3.simplify(z3.substitute(e, *reps)) for e in es]
    return es


def fold(es, subs):
    return fold_prepared(exact_defs_many(es), subs)


class Pins:
    """concrete input valuation: scalar symbols + initial balance array"""

    def __init__(self):
        self.subs = []

    def scalar(self, sym, val):
        self.subs.append((sym, z3.BitVecVal(val, sym.size())))

    def array(self, arr, mapping, default=0):
        dom, rng = arr.sort().domain(), arr.sort().range()
        e = z3.K(dom, z3.BitVecVal(default, rng.size()))
        for k, v in mapping.items():
            e = z3.Store(e, z3.BitVecVal(k, dom.size()), z3.BitVecVal(v, rng.size()))
        self.subs.append((arr, e))


class Prepared:
    """conditions and observed terms of one path with the abstractions made exact (done once per
    path; reused for every pinned input)"""

    def __init__(self, conds, terms):
        self.nconds = len(conds)
        self.es = exact_defs_many(list(conds) + list(terms))
        # one conjunction for a cheap first rejection test
        self.conj = z3.And(self.es[: self.nconds]) if self.nconds > 1 else None


def admits(conds, terms, pins: Pins, timeout_ms=5000):
    return admits_prepared(Prepared(conds, terms), pins, timeout_ms)


def admits_prepared(prep: Prepared, pins: Pins, timeout_ms=5000):
    """returns (verdict, values) with verdict in {'sat','unsat','unknown'} and values the list
    of observed terms evaluated in the found model (ints for bit-vectors, bools)"""
    if prep.conj is not None and pins.subs:
        if z3.is_false(z3.simplify(z3.substitute(prep.conj, *pins.subs))):
            return "unsat", None
    es = fold_prepared(prep.es, pins.subs)
    cs = es[: prep.nconds]
    ts = es[prep.nconds:]
    if any(z3.is_false(c) for c in cs):
        return "unsat", None
    cs = [c for c in cs if not z3.is_true(c)]
    extra = []
    for t in free_consts(es):
        if t.decl().name() == "f_sha3_0":
            extra.append(t == z3.BitVecVal(EMPTY_KECCAK, 256))
    for _ in range(ROUNDS):
        s = z3.Solver()
        s.set(timeout=timeout_ms)
        for c in cs + extra:
            s.add(c)
        r = s.check()
        if r == z3.unsat:
            return "unsat", None
        if r != z3.sat:
            return "unknown", None
        m = s.model()
        added = False
        for a in apps_of(es + extra, "f_sha3_"):
            if a.num_args() != 1:
                continue
            arg = m.eval(a.arg(0), model_completion=True)
            if not z3.is_bv_value(arg):
                continue
            h = _keccak_of(arg)
            if not z3.eq(m.eval(a, model_completion=True), h):
                extra.append(z3.Implies(a.arg(0) == arg, a == h))
                added = True
        for a in apps_of(es + extra, "f_evm_exp"):
            x = m.eval(a.arg(0), model_completion=True)
            y = m.eval(a.arg(1), model_completion=True)
            v = z3.BitVecVal(pow(x.as_long(), y.as_long(), 1 << 256), 256)
            if not z3.eq(m.eval(a, model_completion=True), v):
                extra.append(z3.Implies(z3.And(a.arg(0) == x, a.arg(1) == y), a == v))
                added = True
        if not added:
            vals = []
            for t in ts:
                v = m.eval(t, model_completion=True)
                if z3.is_bv_value(v):
                    vals.append(v.as_long())
                elif z3.is_true(v):
                    vals.append(True)
                elif z3.is_false(v):
                    vals.append(False)
                else:
                    v2 = z3.simplify(v)
                    vals.append(v2.as_long() if z3.is_bv_value(v2) else None)
            return "sat", vals
    return "unknown", None


def path_models(conds, inputs, n=2, timeout_ms=300, rng=None):
    """Candidate concrete valuations of `inputs` for a path, from the *abstract* conditions (as
    halmos sees them: cheap).  Whether a candidate really is admitted under real keccak / exact
    arithmetic is decided afterwards by `admits`.  Boundary-biased via assumption literals."""
    out = []
    s = z3.Solver()
    s.set(timeout=timeout_ms)
    for c in conds:
        s.add(c)
    blocked = 0
    for i in range(n):
        assumptions = []
        if rng is not None and i > 0 and inputs:
            for sym in rng.sample(inputs, min(2, len(inputs))):
                w = sym.size()
                v = rng.choice([0, 1, 2, (1 << w) - 1, 1 << (w - 1), (1 << (w - 1)) - 1, rng.getrandbits(8)]) % (1 << w)
                assumptions.append(sym == v)
        r = s.check(*assumptions)
        if r != z3.sat and assumptions:
            r = s.check()
        if r != z3.sat:
            break
        m = s.model()
        val = {}
        for sym in inputs:
            v = m.eval(sym, model_completion=True)
            val[sym] = v.as_long()
        out.append(val)
        if val:
            s.add(z3.Or([sym != v for sym, v in val.items()]))
    return out
