"""Typed EVM program generators (token lists for asm.asm).

Every generated program terminates by construction (loops carry a concrete or input-bounded
counter, call graphs are acyclic).  Values are typed conc/sym so that operands halmos needs
concrete (memory offsets, sizes, jump targets, SIGNEXTEND index) are never symbolic — those
would only produce 'stuck' paths, which are out of scope for the differential oracle.
Programs emit their observations into an output buffer that is returned (or reverted with)."""

from __future__ import annotations

from asm import asm

M = (1 << 256) - 1
BOUND = [0, 1, 2, 3, 5, 31, 32, 33, 255, 256, 2**16 - 1, 2**16, 2**128, 2**255 - 1, 2**255, 2**255 + 1, 2**256 - 2, 2**256 - 1]
BIN = ["ADD", "MUL", "SUB", "DIV", "SDIV", "MOD", "SMOD", "EXP", "LT", "GT", "SLT", "SGT", "EQ", "AND", "OR", "XOR",
       "BYTE", "SHL", "SHR", "SAR", "SIGNEXTEND"]
CMP = ["LT", "GT", "SLT", "SGT", "EQ"]
UN = ["ISZERO", "NOT"]
TER = ["ADDMOD", "MULMOD"]
OUT_BASE = 0x200
ARG_BASE = 0x100
RET_BASE = 0x180
INIT_BASE = 0x400

DEFAULT_CFG = dict(
    ncd=3, depth=3, stmts=(2, 6), storage=True, transient=True, sha3=True, logs=True, branches=True, loops=True,
    calls=False, creates=False, copies=True, env=True, mapping=True, pool=(), self_addr=0x1000, balances=True,
    sym_call_target=0.0, end_mix=(0.72, 0.12, 0.06, 0.05), initcodes=(), static_ctx=False, max_loop=3, sym_loop=True,
)


GLOBAL_OVERRIDES = {}
CHEAP_BIN = ["ADD", "SUB", "LT", "GT", "SLT", "SGT", "EQ", "AND", "OR", "XOR", "BYTE", "SHL", "SHR", "SAR", "SIGNEXTEND"]


class Gen:
    def __init__(self, rng, **cfg):
        self.r = rng
        self.c = dict(DEFAULT_CFG)
        self.c.update(cfg)
        self.c.update(GLOBAL_OVERRIDES)  # e.g. {"bin_ops": CHEAP_BIN} for solver-unbounded configurations
        self.lbl = 0
        self.nout = 0
        self.features = set()

    # ---- helpers
    def label(self, p="l"):
        self.lbl += 1
        return f"{p}{self.lbl}"

    def const(self):
        r = self.r
        k = r.random()
        if k < 0.55:
            return r.choice(BOUND)
        if k < 0.75:
            return r.getrandbits(r.choice([4, 8, 16]))
        return r.getrandbits(r.choice([64, 160, 256]))

    def out(self, toks):
        o = OUT_BASE + 32 * self.nout
        self.nout += 1
        return toks + [o, "MSTORE"]

    # ---- expressions: returns (tokens, is_symbolic)
    def leaf(self):
        r, c = self.r, self.c
        k = r.random()
        if k < 0.42:
            i = r.randrange(c["ncd"]) if c["ncd"] else 0
            if c["ncd"] == 0:
                return [self.const()], False
            return [4 + 32 * i, "CALLDATALOAD"], True
        if k < 0.52 and c["env"]:
            op = r.choice(["CALLER", "CALLVALUE", "ORIGIN", "ADDRESS", "CALLDATASIZE", "CODESIZE", "PC", "TIMESTAMP", "NUMBER",
                           "CHAINID", "COINBASE", "BASEFEE", "GASLIMIT", "PREVRANDAO", "RETURNDATASIZE"])
            self.features.add("env:" + op)
            return [op], op in ("CALLER", "CALLVALUE", "ORIGIN")
        if k < 0.58 and c["balances"]:
            self.features.add("balance")
            if r.random() < 0.5:
                return ["SELFBALANCE"], True
            who = r.choice([["CALLER"], ["ADDRESS"], [r.choice(list(c["pool"]) + [c["self_addr"], 0x9999])]])
            return who + ["BALANCE"], True
        if k < 0.66 and c["storage"]:
            self.features.add("sload")
            t, s = self.slot_expr()
            return t + ["SLOAD"], True
        if k < 0.69 and c["transient"]:
            self.features.add("tload")
            return [self.r.randrange(3), "TLOAD"], True
        if k < 0.75:
            self.features.add("mload")
            return [r.choice([0, 32, 64, 96, 1, 31, 33]), "MLOAD"], True
        if k < 0.78 and c["pool"]:
            self.features.add("extcode")
            a = r.choice(list(c["pool"]) + [c["self_addr"]])
            return [a, r.choice(["EXTCODESIZE", "EXTCODEHASH"])], False
        return [self.const()], False

    def slot_expr(self):
        """storage location: scalar or mapping element keccak(key . slot)"""
        r = self.r
        if not self.c["mapping"] or r.random() < 0.6:
            return [r.randrange(4)], False
        self.features.add("mapping-slot")
        kt, ks = self.expr(1)
        base = r.randrange(3)
        return kt + [0x00, "MSTORE", base, 0x20, "MSTORE", 0x40, 0x00, "SHA3"], True

    def expr(self, d):
        r = self.r
        if d <= 0 or r.random() < 0.22:
            return self.leaf()
        k = r.random()
        if k < 0.12:
            t, s = self.expr(d - 1)
            return t + [r.choice(UN)], s
        if k < 0.18 and not self.c.get("bin_ops"):
            a, sa = self.expr(d - 1)
            b, sb = self.expr(d - 1)
            n, sn = self.expr(d - 1)
            self.features.add("ternary")
            return n + b + a + [r.choice(TER)], sa or sb or sn
        if k < 0.24 and self.c["sha3"]:
            a, sa = self.expr(d - 1)
            self.features.add("sha3")
            size = r.choice([32, 64, 0, 1, 33])
            return a + [0x00, "MSTORE", size, 0x00, "SHA3"], True
        op = r.choice(self.c.get("bin_ops") or BIN)
        b, sb = self.expr(d - 1)
        a, sa = self.expr(d - 1)
        if op == "SIGNEXTEND":
            a, sa = [r.choice([0, 1, 15, 30, 31, 32, 255])], False
        if op == "EXP" and r.random() < 0.6:
            b, sb = [r.choice([0, 1, 2, 3, 255, 256])], False  # b is the second operand = exponent
        self.features.add("op:" + op)
        # comparison results consumed by arithmetic/bitwise operators (Bool-typed stack values)
        return b + a + [op], sa or sb

    def cond(self, d):
        r = self.r
        if r.random() < 0.7:
            b, sb = self.expr(d)
            a, sa = self.expr(d)
            t = b + a + [r.choice(CMP)]
            if r.random() < 0.3:
                t += ["ISZERO"]
            return t, sa or sb
        return self.expr(d)

    # ---- statements
    def stmt(self, d):
        r, c = self.r, self.c
        k = r.random()
        if k < 0.30:
            t, _ = self.expr(d)
            return self.out(t)
        if k < 0.42 and c["storage"] and not c["static_ctx"]:
            self.features.add("sstore")
            v, _ = self.expr(d)
            s, _ = self.slot_expr()
            return v + s + ["SSTORE"]
        if k < 0.46 and c["transient"] and not c["static_ctx"]:
            self.features.add("tstore")
            v, _ = self.expr(d)
            return v + [r.randrange(3), "TSTORE"]
        if k < 0.54:
            self.features.add("mstore")
            v, _ = self.expr(d)
            return v + [r.choice([0, 32, 64, 96, 1, 31, 33, 63]), r.choice(["MSTORE", "MSTORE", "MSTORE8"])]
        if k < 0.68 and c["branches"] and d > 0:
            self.features.add("branch")
            L = self.label()
            ct, _ = self.cond(d - 1)
            return (ct + [f"@else{L}", "JUMPI"] + self.stmts(r.randrange(1, 3), d - 1) + [f"@end{L}", "JUMP", f":else{L}"]
                    + self.stmts(r.randrange(1, 3), d - 1) + [f":end{L}"])
        if k < 0.74 and c["loops"] and d > 0:
            return self.loop(d)
        if k < 0.79 and c["logs"] and not c["static_ctx"]:
            self.features.add("log")
            n = r.randrange(0, 5)
            toks = []
            for _ in range(n):
                t, _ = self.expr(1)
                toks += t
            return toks + [r.choice([0, 1, 32, 33, 64]), r.choice([0, 0x200, 31]), f"LOG{n}"]
        if k < 0.86 and c["copies"]:
            return self.copy_stmt()
        if k < 0.93 and c["calls"] and c["pool"]:
            return self.call_stmt(d)
        if k < 0.97 and c["creates"] and c["initcodes"] and not c["static_ctx"]:
            return self.create_stmt(d)
        t, _ = self.expr(d)
        return self.out(t)

    def stmts(self, n, d):
        out = []
        for _ in range(n):
            out += self.stmt(d)
        return out

    def loop(self, d):
        """counted loop; counter lives in memory word 0xe0.  Trip count concrete (<= max_loop+2) or
        input-bounded (cd & 3)."""
        r = self.r
        L = self.label("lp")
        sym = self.c["sym_loop"] and r.random() < 0.5
        self.features.add("loop-sym" if sym else "loop-conc")
        if sym:
            i = r.randrange(self.c["ncd"]) if self.c["ncd"] else 0
            init = [4 + 32 * i, "CALLDATALOAD", 3, "AND"] if self.c["ncd"] else [2]
        else:
            init = [r.randrange(0, self.c["max_loop"] + 3)]
        # every loop owns its counter word (nested loops must not share it); scratch writes by
        # statements use offsets <= 0x7f, counters live at 0xa0..0xe0 by nesting depth
        self.loop_depth = getattr(self, "loop_depth", 0) + 1
        ctr = 0xE0 - 0x20 * min(self.loop_depth - 1, 2)
        if self.loop_depth > 3:
            self.loop_depth -= 1
            t, _ = self.expr(d - 1)
            return self.out(t)
        body = self.stmts(r.randrange(1, 3), d - 1)
        self.loop_depth -= 1
        # mem[ctr] = n ; while (mem[ctr] != 0) { body ; mem[ctr] -= 1 }
        return (init + [ctr, "MSTORE", f":top{L}", ctr, "MLOAD", "ISZERO", f"@done{L}", "JUMPI"] + body
                + [1, ctr, "MLOAD", "SUB", ctr, "MSTORE", f"@top{L}", "JUMP", f":done{L}"])

    def copy_stmt(self):
        r = self.r
        k = r.choice(["CALLDATACOPY", "CODECOPY", "MCOPY", "RETURNDATACOPY", "EXTCODECOPY"])
        dst = r.choice([0, 1, 31, 32, 33, 64, 0x200, 0x21F])
        size = r.choice([0, 1, 31, 32, 33, 64, 65])
        self.features.add("copy:" + k)
        if k == "CALLDATACOPY":
            return [size, r.choice([0, 3, 4, 5, 36, 99, 100, 101, 2**255]), dst, k]
        if k == "CODECOPY":
            return [size, r.choice([0, 1, 5, 2**16, 2**255]), dst, k]
        if k == "MCOPY":
            return [size, r.choice([0, 1, 31, 32, 33, 0x200]), dst, k]
        if k == "EXTCODECOPY":
            a = r.choice(list(self.c["pool"]) + [self.c["self_addr"], 0x9999])
            return [size, r.choice([0, 1, 5, 2**16]), dst, a, k]
        # RETURNDATACOPY: in range of the returndata only (zero-size out-of-range is a separate probe);
        # guard: only copy when RETURNDATASIZE >= off+size
        if r.random() < 0.12:
            # unguarded zero-size copy: halts iff the offset lies beyond the return data
            return [0, r.choice([0, 1, 32, 33, 64, 2**255]), dst, "RETURNDATACOPY"]
        off = r.choice([0, 1, 32])
        L = self.label("rc")
        if size == 0:
            off = 0
        return ([off + size, "RETURNDATASIZE", "LT", f"@skip{L}", "JUMPI", size, off, dst, "RETURNDATACOPY", f":skip{L}"])

    def call_stmt(self, d):
        r, c = self.r, self.c
        kind = r.choice(["CALL", "CALL", "STATICCALL", "DELEGATECALL", "CALLCODE"])
        self.features.add("call:" + kind)
        targets = list(c["pool"]) + [0x9999, 4]
        to = r.choice(targets)
        toks = []
        # arguments: a few words at ARG_BASE
        nargs = r.randrange(0, 3)
        for i in range(nargs):
            t, _ = self.expr(1)
            toks += t + [ARG_BASE + 4 + 32 * i, "MSTORE"]
        asz = 4 + 32 * nargs if r.random() < 0.8 else r.choice([0, 3, 4 + 32 * nargs + 1])
        rsz = r.choice([0, 32, 64, 33, 96])
        toks += [rsz, RET_BASE, asz, ARG_BASE]
        if kind in ("CALL", "CALLCODE"):
            if c["static_ctx"] or kind == "CALLCODE":
                toks += [0]
            else:
                v, _ = (self.expr(1) if r.random() < 0.4 else ([r.choice([0, 0, 1, 5])], False))
                if r.random() < 0.5:
                    v = v + [7, "AND"]  # small values so that balances can cover them
                toks += v
        if c["sym_call_target"] and r.random() < c["sym_call_target"] and c["ncd"]:
            self.features.add("call:symbolic-target")
            toks += [4 + 32 * r.randrange(c["ncd"]), "CALLDATALOAD"]
        else:
            toks += [to]
        toks += ["GAS" if False else 0xFFFF, kind]
        toks = self.out_inline(toks)  # success flag
        toks += self.out(["RETURNDATASIZE"])
        # first returned word from the ret area
        toks += self.out([RET_BASE, "MLOAD"])
        return toks

    def out_inline(self, toks):
        o = OUT_BASE + 32 * self.nout
        self.nout += 1
        return toks + [o, "MSTORE"]

    def create_stmt(self, d):
        r, c = self.r, self.c
        init = r.choice(list(c["initcodes"]))
        self.features.add("create")
        toks = []
        # stage initcode in memory word by word
        padded = init + bytes((-len(init)) % 32)
        for i in range(0, len(padded), 32):
            toks += [("push", int.from_bytes(padded[i : i + 32], "big"), 32), INIT_BASE + i, "MSTORE"]
        v = [r.choice([0, 0, 1, 3])] if r.random() < 0.7 else [4 + 32 * r.randrange(max(1, c["ncd"])), "CALLDATALOAD", 3, "AND"]
        if r.random() < 0.5:
            toks += [len(init), INIT_BASE] + v + ["CREATE"]
        else:
            self.features.add("create2")
            toks += [r.choice([0, 1, 2]), len(init), INIT_BASE] + v + ["CREATE2"]
        # observe: address nonzero?, code size of the new account, returndatasize
        toks += ["DUP1", "ISZERO", "ISZERO"]
        toks = self.out_inline(toks)
        toks += ["DUP1", "EXTCODESIZE"]
        toks = self.out_inline(toks)
        toks = self.out_inline(toks)  # the address itself
        toks += self.out(["RETURNDATASIZE"])
        return toks

    def ending(self):
        r = self.r
        a, b, c_, d_ = self.c["end_mix"]
        k = r.random()
        size = 32 * self.nout
        if k < a:
            return [size, OUT_BASE, "RETURN"]
        if k < a + b:
            return [size, OUT_BASE, "REVERT"]
        if k < a + b + c_:
            return ["INVALID"]
        if k < a + b + c_ + d_:
            return ["STOP"]
        return []  # fall off the end (implicit STOP)

    def program(self):
        lo, hi = self.c["stmts"]
        body = self.stmts(self.r.randrange(lo, hi), self.c["depth"])
        return body + self.ending()


def gen_single(rng, **cfg):
    g = Gen(rng, **cfg)
    src = g.program()
    return asm(src), src, g


# simple initcodes: (description, bytes)
def initcode_returning(runtime: bytes) -> bytes:
    n = len(runtime)
    head = asm([("push", n, 2), ("push", 13, 2), 0, "CODECOPY", ("push", n, 2), 0, "RETURN"])
    return head + runtime


def initcode_with_prologue(prologue: bytes, runtime: bytes) -> bytes:
    n = len(runtime)
    off = len(prologue) + 13
    head = asm([("push", n, 2), ("push", off, 2), 0, "CODECOPY", ("push", n, 2), 0, "RETURN"])
    assert len(head) == 13
    return prologue + head + runtime


def standard_initcodes():
    rt1 = asm([0x2A, 0, "MSTORE", 32, 0, "RETURN"])  # returns 42
    rt2 = asm([0, "SLOAD", 0, "MSTORE", "CALLER", 32, "MSTORE", 64, 0, "RETURN"])
    return [
        initcode_returning(rt1),
        initcode_returning(rt2),
        initcode_with_prologue(asm([7, 0, "SSTORE"]), rt2),  # constructor writes storage
        initcode_with_prologue(asm(["CALLVALUE", 0, "SSTORE", "CALLER", 1, "SSTORE", "ADDRESS", 2, "SSTORE"]), rt2),
        asm([0x11, 0, "MSTORE", 32, 0, "REVERT"]),  # reverting constructor
        asm(["INVALID"]),
        asm([0, 0, "RETURN"]),  # empty runtime
        asm([1, 1, "SSTORE", 0, 0, "RETURN"]),
        # the constructor looks at its call data: empty during a creation (size 0, loads and copies give zeros), never the init code
        initcode_with_prologue(asm([0xFF, 0, "MSTORE", 32, 0, 0, "CALLDATACOPY", 0, "MLOAD", 1, "SSTORE", "CALLDATASIZE", 1, "ADD", 2, "SSTORE", 0, "CALLDATALOAD", 3, "SSTORE"]), rt2),
    ]
