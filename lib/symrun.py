"""Harness around halmos' SEVM: builds the start Exec for a pool of contracts with symbolic
calldata / caller / origin / value / initial balances, runs SEVM.run under monitors, and
returns per yielded path: error class, raw conditions, output term, probes (taken at yield
time, while the shared solver still reflects that path), creation addresses, logs.

Monitors (installed from here, in the harness process, no source edits):
  * Exec.check recorder (conditions snapshot, cond, verdict, call site)
  * Path.append(branching=False) recorder (auxiliary axioms)
  * Path.check fault injection: returns `unknown` with probability p
  * 'halmos' logger capture
"""

from __future__ import annotations

import logging
import random
import sys

import z3

sys.setrecursionlimit(1024 * 16)
if hasattr(sys, "set_int_max_str_digits"):
    sys.set_int_max_str_digits(0)

import halmos.sevm as sevm_mod  # noqa: E402
from halmos.__main__ import mk_block, mk_solver  # noqa: E402
from halmos.bitvec import HalmosBitVec as BV  # noqa: E402
from halmos.mapper import BuildOut  # noqa: E402
from halmos.bytevec import ByteVec  # noqa: E402
from halmos.calldata import FunctionInfo  # noqa: E402
from halmos.config import ConfigSource, default_config  # noqa: E402
from halmos.exceptions import HalmosException  # noqa: E402
from halmos.sevm import SEVM, CallContext, Contract, Exec, Message, Path  # noqa: E402
from halmos.utils import EVM as OPC  # noqa: E402

try:
    BuildOut().set_build_out({})
except Exception:  # pragma: no cover
    pass

THIS = 0x1000
A160 = (1 << 160) - 1

# ---------------------------------------------------------------------------- log capture


class _Capture(logging.Handler):
    def __init__(self):
        super().__init__(level=logging.DEBUG)
        self.records = []

    def emit(self, record):
        try:
            self.records.append((record.levelname, str(record.getMessage())))
        except Exception:
            self.records.append((record.levelname, str(record.msg)))


_capture = _Capture()
_installed = False


def install_log_capture(silence=True):
    global _installed
    if _installed:
        return _capture
    lg = logging.getLogger("halmos")
    lg.addHandler(_capture)
    if silence:
        root = logging.getLogger()
        for h in list(root.handlers):
            root.removeHandler(h)
        root.addHandler(logging.NullHandler())
    lg.setLevel(logging.WARNING)
    _installed = True
    return _capture


def take_logs():
    out = list(_capture.records)
    _capture.records.clear()
    return out


# ---------------------------------------------------------------------------- monitors


class Monitors:
    """process-wide monitor state (one SEVM run at a time per process)"""

    def __init__(self):
        self.check_log = None  # list or None
        self.append_log = None
        self.unknown_p = 0.0
        self.unknown_rng = random.Random(0)
        self.injected = 0
        self.path_checks = 0
        self.steps = 0
        self.step_budget = 0


MON = Monitors()
_orig_exec_check = Exec.check
_orig_path_check = Path.check
_orig_path_append = Path.append
_orig_advance = Exec.advance


class StepBudgetExceeded(Exception):
    """the symbolic run executed more instructions than the harness budget (case is dropped)"""


def _advance(self, pc=None):
    MON.steps += 1
    if MON.step_budget and MON.steps > MON.step_budget:
        raise StepBudgetExceeded()
    return _orig_advance(self, pc)


Exec.advance = _advance


def _site():
    f = sys._getframe(2)
    for _ in range(6):
        if f is None:
            break
        name = f.f_code.co_name
        if name in ("jumpi", "select", "resolve_address_alias", "handle_insufficient_fund_case", "run",
                    "calldataload", "handle", "create", "call", "transfer_value"):
            if name == "run":
                return "jump-target"
            if name == "handle":
                return "cheatcode"
            return name
        f = f.f_back
    return "other"


def _exec_check(self, cond):
    MON.steps += 25  # a solver-backed check is charged like 25 instructions against the run budget
    if MON.step_budget and MON.steps > MON.step_budget:
        raise StepBudgetExceeded()
    r = _orig_exec_check(self, cond)
    if MON.check_log is not None:
        try:
            c = z3.simplify(cond) if z3.is_expr(cond) else cond
        except Exception:
            c = cond
        MON.check_log.append((list(self.path.conditions), c, str(r), _site()))
    return r


def _path_check(self, cond):
    MON.path_checks += 1
    if MON.unknown_p and MON.unknown_rng.random() < MON.unknown_p:
        MON.injected += 1
        return z3.unknown
    return _orig_path_check(self, cond)


def _path_append(self, cond, branching=False):
    if MON.append_log is not None and not branching:
        MON.append_log.append(cond)
    return _orig_path_append(self, cond, branching=branching)


Exec.check = _exec_check
Path.check = _path_check
Path.append = _path_append


# ---------------------------------------------------------------------------- results


class PathInfo:
    __slots__ = ("error", "stuck", "conds", "out", "probes", "creates", "logs", "ex", "ncalls", "errmsg")


class SymRun:
    def __init__(self):
        self.paths = []
        self.inputs = {}
        self.balance = None
        self.bounded_loops = 0
        self.logs = []
        self.check_log = []
        self.append_log = []
        self.injected = 0
        self.crash = None
        self.nsteps = 0
        self.budget_exceeded = False


def make_args(**overrides):
    args = default_config()
    if overrides:
        args = args.with_overrides(ConfigSource.command_line, **overrides)
    return args


def _creates_of(ctx, acc):
    for t in ctx.trace:
        if isinstance(t, CallContext):
            if t.message.is_create():
                acc.append(t.message.target)
            _creates_of(t, acc)
    return acc


def _logs_of(ctx, acc):
    """logs of successful frames only, in order (a failed sub-frame's logs are rolled back)"""
    for t in ctx.trace:
        if isinstance(t, sevm_mod.EventLog):
            acc.append(t)
        elif isinstance(t, CallContext):
            if t.output.error is None and t.output.data is not None:
                _logs_of(t, acc)
    return acc


def error_name(err):
    if err is None:
        return None
    return type(err).__name__


def is_stuck(ex):
    o = ex.context.output
    return o.data is None or isinstance(o.error, HalmosException)


def sym_inputs(ncd, prefix="in"):
    d = {f"cd{i}": z3.BitVec(f"{prefix}_cd{i}", 256) for i in range(ncd)}
    d["caller"] = z3.BitVec(f"{prefix}_caller", 160)
    d["origin"] = z3.BitVec(f"{prefix}_origin", 160)
    d["value"] = z3.BitVec(f"{prefix}_value", 256)
    return d


def run_symbolic(
    contracts,
    target=THIS,
    ncd=3,
    selector=b"\x00\x00\x00\x00",
    args=None,
    probe=None,
    unknown_p=0.0,
    unknown_seed=0,
    record_checks=False,
    record_appends=False,
    keep_ex=False,
    concrete=None,
    max_paths=4000,
    second_tx=None,
    sig="t()",
    static=False,
    step_budget=150_000,
):
    """contracts: {addr:int -> bytes|ByteVec}.  concrete: optional dict with keys cd (list of ints),
    caller, origin, value -> runs with these *concrete* inputs instead of symbols.
    second_tx: optional (target, ncd) -> after each successful path, run a second message from its
    end state (fresh transient storage) and report those paths instead."""
    install_log_capture()
    take_logs()
    args = args or make_args()
    sv = SEVM(args, FunctionInfo("T", "t", sig, "f8a8fd6d"))
    solver = mk_solver(args)
    res = SymRun()
    ins = sym_inputs(ncd)
    res.inputs = ins
    cd = ByteVec()
    cd.append(selector)
    for i in range(ncd):
        cd.append(z3.BitVecVal(concrete["cd"][i], 256) if concrete else ins[f"cd{i}"])
    caller = z3.BitVecVal(concrete["caller"], 160) if concrete else ins["caller"]
    origin = z3.BitVecVal(concrete["origin"], 160) if concrete else ins["origin"]
    value = z3.BitVecVal(concrete["value"], 256) if concrete else ins["value"]
    bal = z3.Array("balance_0", z3.BitVecSort(160), z3.BitVecSort(256))
    res.balance = bal
    code = {}
    storage = {}
    tstorage = {}
    for a, c in contracts.items():
        k = z3.BitVecVal(a, 160)
        code[k] = c if isinstance(c, Contract) else Contract(c)
        storage[k] = sv.mk_storagedata()
        tstorage[k] = sv.mk_storagedata()
    this = z3.BitVecVal(target, 160)
    msg = Message(target=this, caller=caller, origin=origin, value=value, data=cd, call_scheme=OPC.CALL, is_static=static)
    path = Path(solver)
    if concrete and concrete.get("balances"):
        for a, v in concrete["balances"].items():
            path.append(z3.Select(bal, z3.BitVecVal(a, 160)) == z3.BitVecVal(v, 256))
    ex = sv.mk_exec(code=code, storage=storage, transient_storage=tstorage, balance=bal, block=mk_block(),
                    context=CallContext(msg), pgm=code[this], path=path)
    MON.check_log = res.check_log if record_checks else None
    MON.append_log = res.append_log if record_appends else None
    MON.unknown_p = unknown_p
    MON.unknown_rng = random.Random(unknown_seed)
    MON.injected = 0
    MON.steps = 0
    MON.step_budget = step_budget

    def record(e, sevm_obj):
        o = e.context.output
        p = PathInfo()
        p.error = error_name(o.error)
        p.errmsg = str(o.error)[:200] if o.error is not None else None
        p.stuck = is_stuck(e)
        p.conds = list(e.path.conditions)
        p.out = None
        if o.data is not None:
            try:
                p.out = o.data.unwrap()
            except Exception as exn:  # noqa
                p.out = None
                p.stuck = True
                p.errmsg = f"unwrap failed: {exn!r}"
        p.creates = _creates_of(e.context, [])
        p.logs = _logs_of(e.context, []) if o.error is None and not p.stuck else []
        p.probes = {}
        if probe is not None and not p.stuck:
            n0 = len(e.path.conditions)
            p.probes = probe(sevm_obj, e)
            # probing may append axioms (balance_of); they are part of what the path reports
            p.conds = list(e.path.conditions)
        p.ex = e if keep_ex else None
        return p

    try:
        for e in sv.run(ex):
            if second_tx is not None and e.context.output.error is None and not is_stuck(e):
                t2, ncd2 = second_tx
                ins2 = sym_inputs(ncd2, prefix="in2")
                res.inputs.update({k + "_2": v for k, v in ins2.items()})
                cd2 = ByteVec()
                cd2.append(selector)
                for i in range(ncd2):
                    cd2.append(ins2[f"cd{i}"])
                msg2 = Message(target=z3.BitVecVal(t2, 160), caller=ins2["caller"], origin=ins2["origin"],
                               value=ins2["value"], data=cd2, call_scheme=OPC.CALL)
                sv2 = SEVM(args, FunctionInfo("T", "t", sig, "f8a8fd6d"))
                solver2 = mk_solver(args)
                path2 = Path(solver2)
                path2.extend_path(e.path)
                first_out = e.context.output.data.unwrap() if e.context.output.data is not None else None
                for e2 in sv2.run_message(e, msg2, path2):
                    p = record(e2, sv2)
                    p.probes["__first_out"] = first_out
                    res.paths.append(p)
                res.bounded_loops += len(sv2.logs.bounded_loops)
            else:
                res.paths.append(record(e, sv))
            if len(res.paths) > max_paths:
                res.crash = "too many paths"
                break
    except StepBudgetExceeded:
        res.budget_exceeded = True
        res.paths = []
    except Exception as exn:  # internal exception escaping SEVM.run
        import traceback

        res.crash = "".join(traceback.format_exception(type(exn), exn, exn.__traceback__))[-2500:]
    finally:
        MON.check_log = None
        MON.append_log = None
        MON.unknown_p = 0.0
        res.injected = MON.injected
    res.bounded_loops += len(sv.logs.bounded_loops)
    res.logs = take_logs()
    return res


def term_to_int_or_term(t):
    if isinstance(t, (bytes, bytearray)):
        return bytes(t)
    if isinstance(t, BV):
        t = t.value if t.is_concrete else t.as_z3()
    if isinstance(t, int):
        return t
    if z3.is_bv_value(t):
        return t.as_long()
    return t


def as_z3_word(v, size=256):
    """anything halmos returns as a word -> z3 term"""
    if isinstance(v, BV):
        return v.as_z3()
    if isinstance(v, int):
        return z3.BitVecVal(v, size)
    if z3.is_bool(v):
        return z3.If(v, z3.BitVecVal(1, size), z3.BitVecVal(0, size))
    if hasattr(v, "as_z3"):
        return v.as_z3()
    return v


def bytes_term(x):
    """output data (bytes | z3 BitVec | None) -> z3 BitVec or None for empty"""
    if x is None:
        return None
    if isinstance(x, (bytes, bytearray)):
        if len(x) == 0:
            return None
        return z3.BitVecVal(int.from_bytes(x, "big"), 8 * len(x))
    return x
