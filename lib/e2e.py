"""End-to-end engine shared by C03 / C04 (and reused by C10, C11, C16, C20): run a generated test
contract through halmos.__main__.run_contract, replay planted / boundary / random arguments and the
reported counterexamples on the reference EVM + Foundry layer."""

from __future__ import annotations

import glob
import os
import random
import re
import shutil
import tempfile

import abi
import artifacts as A
import testgen

WORK = os.path.join(os.path.dirname(os.path.dirname(os.path.abspath(__file__))), ".work")


class TestRecord:
    pass


def random_args(rng, fn, lengths=None):
    vals = []
    for n, t in fn.params:
        v = testgen.boundary_values(rng, t)
        if v is None:
            v = abi.random_value(rng, t, lengths)
        vals.append(v)
    return vals


MODEL_RE = re.compile(r"\(\s*define-fun\s+\|?([^\s|()]+)\|?\s+\(\)\s+\(_\s+BitVec\s+(\d+)\)\s+(#b[01]+|#x[0-9a-fA-F]+|\(_\s+bv(\d+)\s+\d+\))")


def read_model_file(path):
    """independent reader of a solver's (get-model) answer: name -> (width, value)"""
    out = {}
    try:
        txt = open(path).read()
    except OSError:
        return None, ""
    for m in MODEL_RE.finditer(txt):
        name, w, lit = m.group(1), int(m.group(2)), m.group(3)
        if lit.startswith("#b"):
            v = int(lit[2:], 2)
        elif lit.startswith("#x"):
            v = int(lit[2:], 16)
        else:
            v = int(m.group(4))
        out[name] = (w, v)
    return out, txt


def run_contract_case(rng, spec, setup, tests, overrides=None, dump=False, funsigs=None):
    """returns (RunOutput, dump_dir or None)"""
    ov = dict(overrides or {})
    d = None
    if dump:
        os.makedirs(WORK, exist_ok=True)
        d = tempfile.mkdtemp(prefix="dump-", dir=WORK)
        ov["dump_smt_directory"] = d
    ctx = A.make_ctx(spec, funsigs=funsigs or [t.fn.sig for t in tests], overrides=ov)
    out = A.run(ctx)
    return out, d


def within_bounds(t, v, name, bounds):
    """are all dynamic lengths inside the candidate lists halmos was configured with (and prints as bounds)?"""
    k = t[0]
    if k in ("bytes", "string"):
        return len(v) in bounds["bytes"](name)
    if k == "array":
        if t[2] is None and len(v) not in bounds["array"](name):
            return False
        return all(within_bounds(t[1], x, f"{name}[{i}]", bounds) for i, x in enumerate(v))
    if k == "tuple":
        return all(within_bounds(x, y, f"{name}.f{i}" if name else f"f{i}", bounds) for i, (x, y) in enumerate(zip(t[1], v)))
    return True


def mk_bounds(overrides):
    al = (overrides or {}).get("array_lengths") or {}
    da = (overrides or {}).get("default_array_lengths") or [0, 1, 2]
    db = (overrides or {}).get("default_bytes_lengths") or [0, 65, 1024]
    return {"array": lambda n: al.get(n, da), "bytes": lambda n: al.get(n, db)}


def judge_pass(rng, spec, setup, t, panic_codes, res, nrand=6, lengths=None, overrides=None):
    """C03 oracle for a test reported PASS without warning: no admissible replay (argument values within the
    parameter bounds halmos reports) may fail.  Returns a witness or None."""
    bounds = mk_bounds(overrides)
    cands = [list(v) for v in t.planted]
    for _ in range(nrand):
        cands.append(random_args(rng, t.fn, lengths))
    # every configured length of every top-level dynamic parameter
    for i, (n, ty) in enumerate(t.fn.params):
        if ty[0] in ("bytes", "string", "array") and (ty[0] != "array" or ty[2] is None):
            for L in (bounds["bytes"](n) if ty[0] != "array" else bounds["array"](n)):
                if L > 2048:
                    continue
                base = list(t.planted[0]) if t.planted else random_args(rng, t.fn)
                src = base[i]
                if ty[0] == "array":
                    base[i] = (list(src) + [abi.random_value(rng, ty[1]) for _ in range(L)])[:L]
                else:
                    base[i] = (bytes(src) + bytes(rng.getrandbits(8) for _ in range(L)))[:L]
                cands.append(base)
    for vals in cands:
        if not all(within_bounds(ty, v, n, bounds) for (n, ty), v in zip(t.fn.params, vals)):
            res["counters"]["replay_candidates_outside_bounds"] += 1
            continue
        rp = A.replay(spec, t.fn, vals, setup_fn=setup)
        res["counters"]["replays"] += 1
        if rp.status == "unsupported":
            res["counters"]["replay_unsupported"] += 1
            continue
        if rp.fails(panic_codes):
            return dict(args=[v.hex() if isinstance(v, bytes) else v for v in vals], status=rp.status, panic=rp.panic_code, failed_flag=rp.failed_flag)
    return None
