"""End-to-end engine shared by C03 / C04 (and reused by C10, C11, C16, C20): run a generated test
contract through halmos.__main__.run_contract, replay planted / boundary / random arguments and the
reported counterexamples on the reference EVM + Foundry layer."""

from __future__ import annotations

import glob
import os
import random
import re
import shutil
import tempfile

import abi
import artifacts as A
import testgen

WORK = os.path.join(os.path.dirname(os.path.dirname(os.path.abspath(__file__))), ".work")


class TestRecord:
    pass


def random_args(rng, fn, lengths=None):
    vals = []
    for n, t in fn.params:
        v = testgen.boundary_values(rng, t)
        if v is None:
            v = abi.random_value(rng, t, lengths)
        vals.append(v)
    return vals


MODEL_RE = re.compile(r"\(\s*define-fun\s+\|?([^\s|()]+)\|?\s+\(\)\s+\(_\s+BitVec\s+(\d+)\)\s+(#b[01]+|#x[0-9a-fA-F]+|\(_\s+bv(\d+)\s+\d+\))")


def read_model_file(path):
    """independent reader of a solver's (get-model) answer: name -> (width, value)"""
    out = {}
    try:
        txt = open(path).read()
    except OSError:
        return None, ""
    for m in MODEL_RE.finditer(txt):
        name, w, lit = m.group(1), int(m.group(2)), m.group(3)
        if lit.startswith("#b"):
            v = int(lit[2:], 2)
        elif lit.startswith("#x"):
            v = int(lit[2:], 16)
        else:
            v = int(m.group(4))
        out[name] = (w, v)
    return out, txt


def run_contract_case(rng, spec, setup, tests, overrides=None, dump=False, funsigs=None):
    """returns (RunOutput, dump_dir or None)"""
    ov = dict(overrides or {})
    d = None
    if dump:
        os.makedirs(WORK, exist_ok=True)
        d = tempfile.mkdtemp(prefix="dump-", dir=WORK)
        ov["dump_smt_directory"] = d
    ctx = A.make_ctx(spec, funsigs=funsigs or [t.fn.sig for t in tests], overrides=ov)
    out = A.run(ctx)
    return out, d


def judge_pass(rng, spec, setup, t, panic_codes, res, nrand=6, lengths=None):
    """C03 oracle for a test reported PASS without warning: no admissible replay may fail.  Returns a witness or None."""
    cands = [list(v) for v in t.planted]
    for _ in range(nrand):
        cands.append(random_args(rng, t.fn, lengths))
    for vals in cands:
        rp = A.replay(spec, t.fn, vals, setup_fn=setup)
        res["counters"]["replays"] += 1
        if rp.status == "unsupported":
            res["counters"]["replay_unsupported"] += 1
            continue
        if rp.fails(panic_codes):
            return dict(args=[v.hex() if isinstance(v, bytes) else v for v in vals], status=rp.status, panic=rp.panic_code, failed_flag=rp.failed_flag)
    return None
