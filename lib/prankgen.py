"""Generators for C14: prank histories and state-cheatcode programs (straight-line root contract that
records everything it observes into its return data), for lib/diffcore with case.foundry = True."""

import abi
import diffcore
from artifacts import call_cheat, call_raw
from asm import asm
from foundry import HEVM, SVM

ROOT, REC1, REC2, MID, MID2, BLK = 0x1000, 0x1100, 0x1200, 0x1300, 0x1400, 0x1500
EOA1, EOA2, FRESH = 0xBEEF, 0xCAFE, 0x3000
OUT = 0x1000  # root's record area
RET = 0x600
ARG = 0x700

FORK = 0x1600
# forks inside the callee on a symbolic calldata bit, then reports CALLER / ORIGIN
FORK_CODE = [0, "CALLDATALOAD", 1, "AND", "@odd", "JUMPI", "CALLER", 0, "MSTORE", "ORIGIN", 32, "MSTORE", 1, 64, "MSTORE", 128, 0, "RETURN",
             ":odd", "CALLER", 0, "MSTORE", "ORIGIN", 32, "MSTORE", 2, 64, "MSTORE", 128, 0, "RETURN"]
REC2_CODE = ["CALLER", 0, "MSTORE", "ORIGIN", 32, "MSTORE", 64, 0, "RETURN"]
REC1_CODE = ["CALLER", 0, "MSTORE", "ORIGIN", 32, "MSTORE", 64, 64, 0, 0, 0, REC2, 0xFFFF, "CALL", "POP", 128, 0, "RETURN"]
BLK_CODE = ["TIMESTAMP", 0, "MSTORE", "NUMBER", 32, "MSTORE", "BASEFEE", 64, "MSTORE", "CHAINID", 96, "MSTORE", "COINBASE", 128, "MSTORE",
            "PREVRANDAO", 160, "MSTORE", 192, 0, "RETURN"]


def vm(sig, *word_args, ret=0):
    return call_cheat(HEVM, sig, word_args, ret=ret) + ["POP"]


FWD = 0x1600
# forwarder: calldata = flag word ++ cheatcode calldata; calls the cheatcode address with the rest, then reverts iff flag != 0
FWD_CODE = [32, "CALLDATASIZE", "SUB", "DUP1", 32, 0, "CALLDATACOPY", 0, 0, "DUP3", 0, 0, ("push", HEVM, 20), 0xFFFF, "CALL", "POP", "POP",
            0, "CALLDATALOAD", "@rv", "JUMPI", "STOP", ":rv", 0, 0, "REVERT"]


def vm_via(flag, sig, *word_args, mem=0x300):
    """the cheatcode is issued by a nested frame (the forwarder), which then returns (flag 0) or reverts (flag 1); leaves the success flag"""
    toks = [flag, mem, "MSTORE", ("push", int.from_bytes(abi.selector(sig), "big") << 224, 32), mem + 32, "MSTORE"]
    for i, w in enumerate(word_args):
        toks += list(w) + [mem + 36 + 32 * i, "MSTORE"]
    toks += [0, mem + 0x100, 36 + 32 * len(word_args), mem, 0, ("push", FWD, 20), 0xFFFF, "CALL"]
    return toks


def mid_code(keep):
    """calldata word 0 = address to impersonate.  one-shot: prank, call REC2 twice (second is not pranked);
    start/stop: startPrank(a, a+1), call REC2, stopPrank, call REC2"""
    a = [0, "CALLDATALOAD"]
    call2 = lambda off: [64, RET + off, 0, 0, 0, REC2, 0xFFFF, "CALL", "POP"]
    if keep:
        t = vm("startPrank(address,address)", a, a + [1, "ADD"]) + call2(0) + vm("stopPrank()") + call2(64)
    else:
        t = vm("prank(address)", a) + call2(0) + call2(64)
    return t + [128, RET, "RETURN"]


INIT = asm(["CALLER", 0, "SSTORE", "ORIGIN", 1, "SSTORE", 1, 0, "RETURN"])


def _as_int(c):
    try:
        return int(str(c))
    except ValueError:
        return -1


class Rec:
    def __init__(self):
        self.k = 0
        self.toks = []

    def top(self):
        """record the word on top of the stack (consumes it)"""
        self.toks += [OUT + 32 * self.k, "MSTORE"]
        self.k += 1

    def mem(self, src, n):
        for j in range(n):
            self.toks += [src + 32 * j, "MLOAD"]
            self.top()

    def finish(self):
        return self.toks + [32 * self.k, OUT, "RETURN"]


def addr_operand(rng, ncd):
    k = rng.random()
    if k < 0.45:
        i = rng.randrange(ncd)
        return [4 + 32 * i, "CALLDATALOAD"], f"cd{i}"
    v = rng.choice([EOA1, EOA2, REC1, ROOT, 0, 2**160 - 1])
    return [("push", v, 20)], hex(v)


def make_prank_case(rng, length):
    ncd = 3
    r = Rec()
    feats = set()
    active = None  # None | "once" | "keep"
    zero_ret = lambda n: sum(([0, RET + 32 * j, "MSTORE"] for j in range(n)), [])
    nfork = 0
    for _ in range(length):
        k = rng.random()
        if active and rng.random() < 0.3 and nfork < 3:
            # fork the path while a prank is active (both sides continue with the same code)
            r.toks += [4 + 32 * rng.randrange(ncd), "CALLDATALOAD", 1 << rng.randrange(8), "AND", f"@j{nfork}", "JUMPI", f":j{nfork}"]
            nfork += 1
            feats.add("fork-while-prank-" + active)
        if k < 0.3 and active is None:
            two = rng.random() < 0.4
            keep = rng.random() < 0.45
            a, an = addr_operand(rng, ncd)
            o, on = addr_operand(rng, ncd)
            sig = ("startPrank" if keep else "prank") + ("(address,address)" if two else "(address)")
            r.toks += vm(sig, a, o) if two else vm(sig, a)
            active = "keep" if keep else "once"
            feats.add(sig)
        elif k < 0.38:
            r.toks += vm("stopPrank()")
            feats.add("stopPrank" + ("-active" if active else "-idle"))
            active = None
        elif k < 0.5:
            # cheatcode / svm calls must not consume a prank
            which = rng.choice(["load", "label-ish", "svm", "warp"])
            if which == "load":
                r.toks += vm("load(address,bytes32)", [REC1], [0], ret=32)
            elif which == "warp":
                r.toks += vm("warp(uint256)", [rng.choice([1, 7])])
            elif which == "svm":
                data = abi.selector("createUint256(string)") + abi.encode_tuple([("string",)], [b"x"])
                r.toks += call_raw(SVM, data, ret=RET + 0x200) + ["POP"]
            else:
                r.toks += vm("getBlockNumber()", ret=32)
            feats.add("cheat-between:" + which + (":active" if active else ""))
        elif k < 0.62:
            # creation; the new account stores CALLER / ORIGIN (probed from its storage and through vm.load)
            op = rng.choice(["CREATE", "CREATE2"])
            r.toks += [("push", int.from_bytes(INIT.ljust(32, b"\x00"), "big"), 32), ARG, "MSTORE"]
            r.toks += ([rng.randrange(4)] if op == "CREATE2" else []) + [len(INIT), ARG, 0, op]
            r.toks += ["DUP1"] + vm("load(address,bytes32)", ["DUP1"], [0], ret=32) + ["POP"]
            r.mem(0x400, 1)
            r.toks += ["DUP1"] + vm("load(address,bytes32)", ["DUP1"], [1], ret=32) + ["POP"]
            r.mem(0x400, 1)
            r.toks += ["ISZERO", "ISZERO"]
            r.top()
            feats.add(op + (":" + active if active else ""))
            if active == "once":
                active = None
        elif k < 0.72 and active is None:
            r.toks += zero_ret(4) + [128, RET, 0, 0, REC1, 0xFFFF, "DELEGATECALL"]
            r.top()
            r.mem(RET, 4)
            feats.add("DELEGATECALL-no-prank")
        else:
            target = rng.choice([REC1, REC1, REC2, MID, MID2, FORK, "sym", "sym"])
            kind = rng.choice(["CALL", "CALL", "STATICCALL"])
            if target == "sym":
                # the callee is a symbolic address (calldata word): halmos forks over the accounts it may alias; every alias is called
                # with the same (pranked) sender.  The recorders accept any call data.
                i = rng.randrange(ncd)
                r.toks += zero_ret(4)
                r.toks += [128, RET, 0, 0] + ([0] if kind == "CALL" else []) + [4 + 32 * i, "CALLDATALOAD", 0xFFFF, kind]
                r.top()
                r.mem(RET, 4)
                feats.add(f"{kind}->symbolic-target" + (":" + active if active else ""))
                if active == "once":
                    active = None
                continue
            val = 1 if (kind == "CALL" and target in (REC1, REC2) and rng.random() < 0.25) else 0
            r.toks += zero_ret(4)
            if target in (MID, MID2, FORK):
                a, an = addr_operand(rng, ncd)
                r.toks += a + [ARG, "MSTORE"]
                args = [32, ARG]
            else:
                args = [0, 0]
            r.toks += [128, RET] + args + ([val] if kind == "CALL" else []) + [target, 0xFFFF, kind]
            r.top()
            r.mem(RET, 4)
            if val:
                for a in (target, EOA1, ROOT):
                    r.toks += [("push", a, 20), "BALANCE"]
                    r.top()
            feats.add(f"{kind}->{ {REC1: 'rec1', REC2: 'rec2', MID: 'mid-once', MID2: 'mid-start', FORK: 'forking-callee'}[target] }" + (":" + active if active else "") + (":value" if val else ""))
            if active == "once":
                active = None
    contracts = {ROOT: asm(r.finish()), REC1: asm(REC1_CODE), REC2: asm(REC2_CODE), MID: asm(mid_code(False)), MID2: asm(mid_code(True)), FORK: asm(FORK_CODE)}
    case = diffcore.Case(contracts, target=ROOT, ncd=ncd, label="prank-history", bal_addrs=[ROOT, REC1, REC2, EOA1, EOA2, 0x2000],
                         gen_features=sorted(feats))
    case.foundry = True
    case.default_tape = [0] * 8
    # an input address (a pranked sender, a call target) that coincides with the address halmos assigns to a contract created on the path is
    # degenerate: the creator and the created account would be the same account
    case.exclude_input = lambda inp, creates: any(_as_int(c) in {w & ((1 << 160) - 1) for w in inp.cd} | {inp.caller, inp.origin} for c in creates)
    return case


def word_operand(rng, ncd, consts):
    if rng.random() < 0.5:
        i = rng.randrange(ncd)
        return [4 + 32 * i, "CALLDATALOAD"], f"cd{i}"
    v = rng.choice(consts)
    return [("push", v, 32)], hex(v)


ETCH_CODES = [asm([0x2A, 0, "MSTORE", 32, 0, "RETURN"]), asm([0x2B, 0, "MSTORE", 32, 0, "RETURN"]) + b"\x00" * 30, b"", b"\x00"]


def make_state_case(rng, length):
    ncd = 3
    r = Rec()
    feats = set()
    generic = rng.random() < 0.3
    big = [0, 1, 5, 2**64, 2**255, 2**256 - 1]

    def read_block():
        for op in ("TIMESTAMP", "NUMBER", "BASEFEE", "CHAINID", "COINBASE", "PREVRANDAO"):
            r.toks.append(op)
            r.top()
        if rng.random() < 0.5:
            r.toks += [192, RET, 0, 0, BLK, 0xFFFF, "STATICCALL", "POP"]
            r.mem(RET, 6)
            feats.add("block-read-nested")
        if rng.random() < 0.3:
            r.toks += vm("getBlockNumber()", ret=32)
            r.mem(0x400, 1)
            feats.add("getBlockNumber")

    def read_balances():
        for a in (ROOT, REC1, EOA1, FRESH):
            r.toks += [("push", a, 20), "BALANCE"]
            r.top()
        r.toks.append("SELFBALANCE")
        r.top()

    def read_slots(slot_toks):
        for a in (ROOT, REC1, REC2):
            r.toks += vm("load(address,bytes32)", [("push", a, 20)], slot_toks, ret=32)
            r.mem(0x400, 1)
        r.toks += list(slot_toks) + ["SLOAD"]
        r.top()
        r.toks += [32, RET, 0, 0, REC1, 0xFFFF, "STATICCALL", "POP"]  # REC1 in state mode returns its slot 5
        r.mem(RET, 1)

    def issue(sig, *args):
        # directly, or from a nested frame that returns / reverts afterwards (journaled state is rolled back with the frame, the block
        # environment is not)
        how = rng.choice(["direct", "direct", "nested-return", "nested-revert"])
        if how == "direct":
            r.toks += vm(sig, *args)
        else:
            r.toks += vm_via(1 if how == "nested-revert" else 0, sig, *args)
            r.top()
            feats.add("cheatcode-from-" + how + ":" + sig.split("(")[0])

    for _ in range(length):
        which = rng.choice(["deal", "deal", "store", "store", "etch", "warp", "roll", "fee", "chainId", "coinbase", "difficulty", "sstore"])
        if which == "deal":
            if rng.random() < 0.25:
                who, wn = [4 + 32 * 2, "CALLDATALOAD"], "sym"
            else:
                who, wn = [("push", rng.choice([ROOT, REC1, EOA1, FRESH]), 20)], "const"
            v, vn = word_operand(rng, 2, big)
            issue("deal(address,uint256)", who, v)
            read_balances()
            feats.add(f"deal:{wn}:{'sym' if vn.startswith('cd') else 'const'}")
        elif which == "store":
            who = rng.choice([ROOT, REC1, REC2])
            if generic and rng.random() < 0.5:
                slot, sn = [4, "CALLDATALOAD"], "sym"
            else:
                slot, sn = [rng.choice([0, 1, 5, 7])], "const"
            v, vn = word_operand(rng, 2, big)
            if sn == "sym":
                v = [4 + 32, "CALLDATALOAD"]
            issue("store(address,bytes32,bytes32)", [("push", who, 20)], slot, v)
            read_slots(slot)
            if sn == "const":
                read_slots([slot[0] + 1])
            feats.add(f"store:{ {ROOT: 'self', REC1: 'rec1', REC2: 'rec2'}[who] }:slot-{sn}")
        elif which == "sstore":
            v, vn = word_operand(rng, 2, big)
            s = rng.choice([0, 1, 5])
            r.toks += v + [s, "SSTORE"]
            read_slots([s])
            feats.add("sstore-then-load")
        elif which == "etch":
            who = rng.choice([FRESH, REC2, EOA1])
            code = rng.choice(ETCH_CODES)
            data = abi.selector("etch(address,bytes)") + abi.encode_tuple([("address",), ("bytes",)], [who, code])
            r.toks += call_raw(HEVM, data, ret=RET + 0x200, ret_size=0) + ["POP"]
            for a in (who, REC1, EOA2):
                r.toks += [("push", a, 20), "EXTCODESIZE"]
                r.top()
                if a != EOA2:  # EXTCODEHASH of a funded account without code is an EVM-level matter (C01), not a cheatcode one
                    r.toks += [("push", a, 20), "EXTCODEHASH"]
                    r.top()
            r.toks += [0, RET, "MSTORE", 32, RET, 0, 0, 0, ("push", who, 20), 0xFFFF, "CALL"]
            r.top()
            r.mem(RET, 1)
            r.toks += [32, 0, RET, ("push", who, 20), "EXTCODECOPY"]
            r.mem(RET, 1)
            feats.add(f"etch:{ {FRESH: 'fresh', REC2: 'existing', EOA1: 'eoa'}[who] }:len{len(code)}")
        else:
            sig = {"warp": "warp(uint256)", "roll": "roll(uint256)", "fee": "fee(uint256)", "chainId": "chainId(uint256)", "coinbase": "coinbase(address)",
                   "difficulty": "difficulty(uint256)", "prevrandao": "prevrandao(bytes32)"}[which]
            if which == "coinbase":
                v, vn = addr_operand(rng, 2)
            else:
                v, vn = word_operand(rng, 2, big if which != "chainId" else [1, 5, 31337, 2**64 - 1])
            issue(sig, v)
            read_block()
            feats.add(f"{which}:{'sym' if vn.startswith('cd') else 'const'}")
    rec1_state = [5, "SLOAD", 0, "MSTORE", 32, 0, "RETURN"]
    contracts = {ROOT: asm(r.finish()), REC1: asm(rec1_state), REC2: asm(REC2_CODE), BLK: asm(BLK_CODE), FWD: asm(FWD_CODE)}
    case = diffcore.Case(contracts, target=ROOT, ncd=ncd, label="state-cheatcodes" + ("-generic" if generic else ""),
                         overrides={"storage_layout": "generic"} if generic else None,
                         slots={ROOT: [0, 1, 2, 5, 6, 7, 8], REC1: [0, 1, 2, 5, 6, 7, 8], REC2: [0, 1, 2, 5, 6, 7, 8]},
                         bal_addrs=[ROOT, REC1, REC2, EOA1, EOA2, FRESH, 0x2000], gen_features=sorted(feats))
    case.foundry = True
    case.default_tape = [0] * 8
    # an input address (a pranked sender, a call target) that coincides with the address halmos assigns to a contract created on the path is
    # degenerate: the creator and the created account would be the same account
    case.exclude_input = lambda inp, creates: any(_as_int(c) in {w & ((1 << 160) - 1) for w in inp.cd} | {inp.caller, inp.origin} for c in creates)
    return case
