"""Shared plumbing for every check: tier/seed, counters, evidence, violations, known
findings, and a kill-able worker pool (never multiprocessing.Pool: it hangs for ever when a
child dies)."""

from __future__ import annotations

import argparse
import collections
import hashlib
import json
import multiprocessing as mp
import multiprocessing.connection as mpc
import os
import signal
import sys
import time
import traceback

VERIF = os.path.dirname(os.path.dirname(os.path.abspath(__file__)))
REPO = os.environ.get("VERIF_REPO", "/repo")
NPROC = int(os.environ.get("VERIF_NPROC", str(min(16, os.cpu_count() or 4))))

sys.setrecursionlimit(1024 * 16)
if hasattr(sys, "set_int_max_str_digits"):
    sys.set_int_max_str_digits(0)


def jsonable(x, depth=0):
    if depth > 8:
        return repr(x)[:200]
    if isinstance(x, (str, bool)) or x is None:
        return x
    if isinstance(x, int):
        return x if abs(x) < 2**53 else hex(x)
    if isinstance(x, float):
        return x
    if isinstance(x, (bytes, bytearray)):
        return "0x" + bytes(x).hex()
    if isinstance(x, dict):
        return {str(k): jsonable(v, depth + 1) for k, v in x.items()}
    if isinstance(x, (list, tuple, set, frozenset)):
        return [jsonable(v, depth + 1) for v in x]
    return repr(x)[:400]


class Known:
    """known_findings.json: committed, never written at run time.  Entries are keyed by
    mechanism; a check looks an entry up only from its *dedicated probe* for that mechanism."""

    def __init__(self):
        path = os.path.join(VERIF, "known_findings.json")
        try:
            with open(path) as f:
                data = json.load(f)
        except FileNotFoundError:
            data = {"findings": [], "fixed": []}
        self.findings = data.get("findings", [])
        self.fixed = data.get("fixed", [])

    def listed(self, prop, mechanism):
        return any(
            f["property"] == prop and f["mechanism"] == mechanism for f in self.findings
        )


class Run:
    def __init__(self, prop, level, argv=None, description=""):
        ap = argparse.ArgumentParser(description=description)
        ap.add_argument("--tier", default=os.environ.get("VERIF_TIER", "quick"))
        ap.add_argument("--replay", default=None)
        ap.add_argument("--seed", type=int, default=None)
        ap.add_argument("--scale", type=float, default=float(os.environ.get("VERIF_SCALE", "1")))
        ap.add_argument("--no-evidence", action="store_true")
        a = ap.parse_args(argv)
        self.prop = prop
        self.level = level
        self.tier = a.tier if a.tier in ("quick", "thorough") else "quick"
        self.replay = a.replay
        self.scale = a.scale
        self.no_evidence = a.no_evidence or bool(a.replay)
        seed = a.seed if a.seed is not None else os.environ.get("VERIF_SEED", "0")
        try:
            self.seed = int(seed)
        except ValueError:
            self.seed = int.from_bytes(hashlib.sha256(str(seed).encode()).digest()[:4], "big")
        self.t0 = time.time()
        self.counters = collections.Counter()
        self.features = collections.Counter()
        self.samples = []
        self.distinct = set()
        self.violations = []
        self.known_printed = []
        self.inconclusive = []
        self.assumptions = []
        self.extra = {}
        self.rule = ""
        self.exhaustive = None
        self.known = Known()
        self._vio_keys = set()

    # -- sizes --------------------------------------------------------------------------
    # the thorough tier runs this many times the quick tier's workload (where the quick tier has one): the sizes written in the checks
    # (20-40 x) were never affordable — a full thorough sweep took far more than a day of 16 cores — so they act as upper bounds;
    # VERIF_THOROUGH_FACTOR raises the factor for anyone with the time
    THOROUGH_FACTOR = float(os.environ.get("VERIF_THOROUGH_FACTOR", "4"))

    def n(self, quick, thorough):
        if self.tier == "quick":
            v = quick
        elif quick > 0 and thorough > 0 and self.prop not in ("C06", "C18"):  # those two are cheap: full sizes
            v = min(thorough, quick * self.THOROUGH_FACTOR)
        else:
            v = thorough
        return max(1, int(v * self.scale))

    def thorough(self):
        return self.tier == "thorough"

    # -- recording ----------------------------------------------------------------------
    def count(self, key, k=1):
        self.counters[key] += k

    def feature(self, key, k=1):
        self.features[key] += k

    def merge(self, res):
        """merge a worker result dict: counters, features, distinct, samples, violations"""
        if not res:
            return
        for k, v in res.get("counters", {}).items():
            self.counters[k] += v
        for k, v in res.get("features", {}).items():
            self.features[k] += v
        for d in res.get("distinct", ()):
            self.distinct.add(d)
        for s in res.get("samples", ()):
            self.sample(s)
        for v in res.get("violations", ()):
            self.violation(v.get("what", "violation"), v, key=v.get("key"))
        for v in res.get("known", ()):
            self.known_finding(v["mechanism"], v.get("detail", ""))
        for v in res.get("inconclusive", ()):
            self.inconclusive.append(v)

    def sample(self, s, cap=6):
        if len(self.samples) < cap:
            self.samples.append(jsonable(s))

    def add_distinct(self, key):
        self.distinct.add(key)

    def violation(self, what, witness, key=None):
        key = key or what
        if key in self._vio_keys and len(self.violations) >= 1:
            self.counters["violations_duplicate_key"] += 1
            return
        self._vio_keys.add(key)
        d = os.path.join(os.environ.get("VERIF_REPLAY_DIR") or os.path.join(VERIF, "replays"), self.prop)
        os.makedirs(d, exist_ok=True)
        h = hashlib.sha256(json.dumps(jsonable(witness), sort_keys=True).encode()).hexdigest()[:12]
        path = os.path.join(d, f"{self.tier}-{self.seed}-{h}.json")
        body = {
            "property": self.prop,
            "what": what,
            "tier": self.tier,
            "seed": self.seed,
            "witness": jsonable(witness),
        }
        with open(path, "w") as f:
            json.dump(body, f, indent=1)
        self.violations.append(path)
        print(f"VIOLATION property={self.prop} replay={path}", flush=True)
        print(f"  what: {what}", flush=True)
        if len(self.violations) <= 5:
            print("  witness: " + json.dumps(jsonable(witness))[:1500], flush=True)

    def known_finding(self, mechanism, detail=""):
        """Called by a dedicated probe whose deviation still reproduces.  Listed -> KNOWN-FINDING
        line; not listed -> violation."""
        if mechanism in self.known_printed:
            return
        if self.known.listed(self.prop, mechanism):
            self.known_printed.append(mechanism)
            print(f"KNOWN-FINDING: property={self.prop} {mechanism} {detail}".rstrip(), flush=True)
        else:
            self.violation(f"probe:{mechanism}", {"mechanism": mechanism, "detail": detail}, key="probe:" + mechanism)

    def inconclusive_if(self, cond, reason):
        if cond:
            self.inconclusive.append(reason)

    def require(self, counter, minimum):
        """minimum-coverage rule: the deciding monitor must have been reached"""
        have = self.counters.get(counter, 0)
        if have < minimum:
            self.inconclusive.append(f"{counter}={have} < {minimum}")

    # -- finish -------------------------------------------------------------------------
    def finish(self, evaluations_key=None):
        wall = time.time() - self.t0
        evaluations = int(self.counters.get(evaluations_key or "evaluations", 0))
        cov = {
            "evaluations": evaluations,
            "distinct_nontrivial": len(self.distinct),
            "rule": self.rule,
            "samples": self.samples if self.samples else ["<none>"],
            "counters": dict(sorted(self.counters.items())),
            "features": dict(sorted(self.features.items())),
            "known_findings_reproduced": list(self.known_printed),
            "inconclusive_reasons": list(self.inconclusive),
        }
        if self.exhaustive is not None:
            cov["exhaustive"] = bool(self.exhaustive)
        cov.update(jsonable(self.extra))
        ev = {
            "property_id": self.prop,
            "tier": self.tier,
            "seed": self.seed,
            "level": self.level,
            "coverage": cov,
            "assumptions": self.assumptions,
            "wall_s": round(wall, 2),
            "violations": len(self.violations),
        }
        if not self.no_evidence:
            d = os.path.join(VERIF, "evidence")
            os.makedirs(d, exist_ok=True)
            tmp = os.path.join(d, f".{self.prop}.json.tmp{os.getpid()}")
            with open(tmp, "w") as f:
                json.dump(ev, f, indent=1)
            os.replace(tmp, os.path.join(d, f"{self.prop}.json"))
        summary = {k: v for k, v in sorted(self.counters.items())}
        print(
            f"[{self.prop}] tier={self.tier} seed={self.seed} wall={wall:.1f}s evaluations={evaluations} "
            f"distinct_nontrivial={len(self.distinct)} violations={len(self.violations)}",
            flush=True,
        )
        print(f"[{self.prop}] counters: {json.dumps(summary)[:3000]}", flush=True)
        if self.violations:
            sys.exit(1)
        if self.inconclusive:
            print(f"INCONCLUSIVE property={self.prop} reason={'; '.join(self.inconclusive)[:600]}", flush=True)
            sys.exit(2)
        print(f"HELD property={self.prop} (on everything explored)", flush=True)
        sys.exit(0)


# ---------------------------------------------------------------------------------------
# worker pool
# ---------------------------------------------------------------------------------------


class CaseTimeout(Exception):
    pass


def _alarm(sig, frm):
    raise CaseTimeout()


def _worker_main(conn, func, soft_timeout, init):
    signal.signal(signal.SIGALRM, _alarm)
    signal.signal(signal.SIGINT, signal.SIG_IGN)
    if not os.environ.get("VERIF_WORKER_STDERR"):
        # native libraries (z3) write diagnostics such as "ASSERTION VIOLATION" straight to fd 2; keep them out of the
        # check's output (Python-level failures of a case are reported through the result pipe, not through stderr)
        try:
            fd = os.open(os.devnull, os.O_WRONLY)
            os.dup2(fd, 2)
            os.close(fd)
        except OSError:
            pass
    if init:
        init()
    while True:
        try:
            msg = conn.recv()
        except (EOFError, OSError):
            return
        if msg is None:
            return
        idx, item = msg
        res = None
        try:
            signal.setitimer(signal.ITIMER_REAL, soft_timeout)
            res = ("ok", func(item))
        except CaseTimeout:
            res = ("timeout", None)
        except BaseException as e:  # noqa
            res = ("crash", "".join(traceback.format_exception(type(e), e, e.__traceback__))[-3000:])
        finally:
            signal.setitimer(signal.ITIMER_REAL, 0)
        try:
            conn.send((idx, res))
        except Exception as e:  # unpicklable
            conn.send((idx, ("crash", f"unpicklable result: {e!r}")))


class _W:
    def __init__(self, ctx, func, soft, init):
        self.parent, child = ctx.Pipe()
        self.proc = ctx.Process(target=_worker_main, args=(child, func, soft, init), daemon=True)
        self.proc.start()
        child.close()
        self.busy = None  # (idx, item, deadline)

    def kill(self):
        try:
            self.proc.kill()
            self.proc.join(2)
        except Exception:
            pass
        try:
            self.parent.close()
        except Exception:
            pass


def pmap(func, items, soft_timeout=30.0, hard_extra=15.0, nproc=None, init=None, progress=None):
    """Run func(item) for every item in forked workers.  Yields (item, status, value) with
    status in {ok, timeout, crash, killed}.  A worker that ignores its soft timeout (stuck in C
    code) is killed after soft+hard_extra seconds and respawned; that case is 'killed'."""
    nproc = nproc or NPROC
    items = list(items)
    ctx = mp.get_context("fork")
    workers = [_W(ctx, func, soft_timeout, init) for _ in range(min(nproc, max(1, len(items))))]
    nxt = 0
    done = 0
    total = len(items)
    try:
        while done < total:
            for i, w in enumerate(workers):
                if w.busy is None and nxt < total:
                    w.parent.send((nxt, items[nxt]))
                    w.busy = (nxt, items[nxt], time.time() + soft_timeout + hard_extra)
                    nxt += 1
            busy = [w for w in workers if w.busy is not None]
            if not busy:
                break
            ready = mpc.wait([w.parent for w in busy], timeout=1.0)
            now = time.time()
            for i, w in enumerate(workers):
                if w.busy is None:
                    continue
                if w.parent in ready:
                    try:
                        idx, res = w.parent.recv()
                    except (EOFError, OSError):
                        idx, item, _ = w.busy
                        w.kill()
                        workers[i] = _W(ctx, func, soft_timeout, init)
                        done += 1
                        yield (item, "killed", "worker died")
                        continue
                    item = w.busy[1]
                    w.busy = None
                    done += 1
                    yield (item, res[0], res[1])
                elif now > w.busy[2] or not w.proc.is_alive():
                    idx, item, _ = w.busy
                    w.kill()
                    workers[i] = _W(ctx, func, soft_timeout, init)
                    done += 1
                    yield (item, "killed", "hard watchdog")
            if progress and done and done % progress == 0:
                print(f"  .. {done}/{total}", flush=True)
    finally:
        for w in workers:
            try:
                w.parent.send(None)
            except Exception:
                pass
        for w in workers:
            w.proc.join(0.5)
            if w.proc.is_alive():
                w.kill()


def run_pool(run: Run, func, items, soft_timeout=30.0, nproc=None, init=None, max_bad_frac=0.05):
    """pmap + merging of standard result dicts into `run`; timeouts / crashes are counted
    and (beyond a small budget) make the run inconclusive.  A *crash* of the harness itself
    is reported loudly since it hides cases."""
    n = 0
    bad = 0
    for item, status, value in pmap(func, items, soft_timeout=soft_timeout, nproc=nproc, init=init):
        n += 1
        if status == "ok":
            run.merge(value)
        else:
            bad += 1
            run.count("case_" + status)
            if status == "crash":
                print(f"  harness crash on case {str(item)[:200]}:\n{value}", flush=True)
    if n and bad / n > max_bad_frac:
        run.inconclusive.append(f"{bad}/{n} cases timed out / crashed in the harness")
    return n


def new_result():
    return {
        "counters": collections.Counter(),
        "features": collections.Counter(),
        "distinct": [],
        "samples": [],
        "violations": [],
        "known": [],
        "inconclusive": [],
    }
