"""Grammar of generated Foundry-style test contracts (hand-assembled): setUp + check_* functions with
static and dynamic parameters, guard chains with planted solutions or planted unsatisfiability, failure
kinds (Panic codes, vm.assert*, DSTest fail flag, plain revert), guards needing refinement of the
arithmetic abstractions, failures behind loops, failures depending on storage written by setUp."""

from __future__ import annotations

import abi
import artifacts as A
from artifacts import Fn, arg, panic, vm

M = (1 << 256) - 1
U = ("uint", 256)
SETUP_SLOT_VALUE = 0x5151


class GenTest:
    def __init__(self, fn, planted, can_fail, kind, failure, features=(), needs_refinement=False, abstraction_in_model=False, min_loop=0):
        self.fn = fn
        self.planted = planted          # list of argument tuples expected to make the test fail
        self.can_fail = can_fail
        self.kind = kind
        self.failure = failure          # panic1 | panic11 | vmassert | failflag | revert(not a failure)
        self.features = set(features)
        self.needs_refinement = needs_refinement
        self.abstraction_in_model = abstraction_in_model  # failing path keeps an un-refinable abstraction (exp)
        self.min_loop = min_loop        # loop iterations needed to reach the planted failure


LIT_HASH_WORD = 0x1234
LIT_HASH_SLOT = int.from_bytes(__import__("refevm").keccak(LIT_HASH_WORD.to_bytes(32, "big")), "big")


def fail_tokens(kind):
    if kind == "panic1":
        return panic(1)
    if kind == "panic11":
        return panic(0x11)
    if kind == "vmassert":
        return vm("assertTrue(bool)", [0]) + ["STOP"]
    if kind == "vmasserteq":
        return vm("assertEq(uint256,uint256)", [1], [2]) + ["STOP"]
    if kind == "failflag":
        return A.fail_flag() + ["STOP"]
    if kind == "revert":
        return [0, 0, "REVERT"]
    raise ValueError(kind)


ALL_KINDS = ["xor_add", "mul", "div", "mod", "sdiv", "addmod", "mulmod", "exp", "bytes_len", "arr_sum", "unsat", "two_args", "storage",
                      "signed", "shift", "nested_assert", "conj3", "loop_guard", "arr_loop", "bytes_tail", "disarm", "storage", "storage2",
                      "smod_zero", "mod_zero", "div_zero", "sdiv_zero", "addmod_zero", "mulmod_zero",
                      "div_zero_hit", "mod_zero_hit", "sdiv_zero_hit", "smod_zero_hit", "nested_stuck", "mul_exp", "two_fail", "multi_width", "vmassert_hard", "arr_len_mul", "two_dyn"]


def gen_test(rng, idx, failure=None, kinds=None):
    kinds = kinds or ALL_KINDS
    kind = rng.choice(kinds)
    failure = failure or rng.choice(["panic1", "panic1", "panic11", "vmassert", "vmasserteq", "failflag"])
    name = f"check_t{idx}"
    bad = [":bad"] + fail_tokens(failure)
    feats = {"kind:" + kind, "failure:" + failure}
    if kind == "xor_add":
        k1, k2, k3 = rng.getrandbits(256), rng.getrandbits(64), rng.getrandbits(256)
        sol = ((k3 - k2) & M) ^ k1
        body = arg(0) + [("push", k1, 32), "XOR", k2, "ADD", ("push", k3, 32), "EQ", "@bad", "JUMPI", "STOP"] + bad
        return GenTest(Fn(name, [("x", U)], body), [[sol]], True, kind, failure, feats)
    if kind == "mul":
        a, b = rng.randrange(2, 1000), rng.randrange(2, 1000)
        body = arg(1) + arg(0) + ["MUL", a * b, "EQ"] + arg(0) + [a, "EQ", "AND", "@bad", "JUMPI", "STOP"] + bad
        return GenTest(Fn(name, [("x", U), ("y", U)], body), [[a, b]], True, kind, failure, feats, needs_refinement=True)
    if kind == "div":
        d, q = rng.randrange(2, 1000), rng.randrange(1, 1000)
        body = arg(1) + arg(0) + ["DIV", q, "EQ"] + arg(1) + [d, "EQ", "AND", "@bad", "JUMPI", "STOP"] + bad
        return GenTest(Fn(name, [("x", U), ("y", U)], body), [[q * d, d], [q * d + d - 1, d]], True, kind, failure, feats, needs_refinement=True)
    if kind == "mod":
        d, r_ = rng.randrange(3, 1000), 0
        r_ = rng.randrange(0, d)
        body = arg(1) + arg(0) + ["MOD", r_, "EQ"] + arg(1) + [d, "EQ", "AND", 10**6] + arg(0) + ["GT", "AND", "@bad", "JUMPI", "STOP"] + bad
        x = 10**6 + d - (10**6 % d) + r_
        return GenTest(Fn(name, [("x", U), ("y", U)], body), [[x, d]], True, kind, failure, feats, needs_refinement=True)
    if kind == "sdiv":
        d, q = rng.randrange(2, 100), rng.randrange(1, 100)
        # x sdiv y == -q  and y == d  (x negative)
        negq = (-q) & M
        body = arg(1) + arg(0) + ["SDIV", ("push", negq, 32), "EQ"] + arg(1) + [d, "EQ", "AND", "@bad", "JUMPI", "STOP"] + bad
        return GenTest(Fn(name, [("x", U), ("y", U)], body), [[(-(q * d)) & M, d]], True, kind, failure, feats, needs_refinement=True)
    if kind == "addmod":
        n, r_ = rng.randrange(5, 1000), 0
        r_ = rng.randrange(0, n)
        # addmod(x, y, n) == r and n arg symbolic: z == n
        body = arg(2) + arg(1) + arg(0) + ["ADDMOD", r_, "EQ"] + arg(2) + [n, "EQ", "AND"] + arg(1) + [7, "EQ", "AND", "@bad", "JUMPI", "STOP"] + bad
        x = (r_ - 7) % n
        return GenTest(Fn(name, [("x", U), ("y", U), ("z", U)], body), [[x, 7, n], [x + n, 7, n]], True, kind, failure, feats, needs_refinement=True)
    if kind == "mulmod":
        n = rng.randrange(5, 1000)
        a, b = rng.randrange(2, 100), rng.randrange(2, 100)
        r_ = (a * b) % n
        body = arg(2) + arg(1) + arg(0) + ["MULMOD", r_, "EQ"] + arg(2) + [n, "EQ", "AND"] + arg(0) + [a, "EQ", "AND"] + arg(1) + [b, "EQ", "AND", "@bad", "JUMPI", "STOP"] + bad
        return GenTest(Fn(name, [("x", U), ("y", U), ("z", U)], body), [[a, b, n]], True, kind, failure, feats, needs_refinement=True)
    if kind == "exp":
        # x ** 3 == c  with a symbolic base: EXP stays an abstraction (exponent above --smt-exp-by-const)
        a = rng.randrange(2, 50)
        body = [3] + arg(0) + ["EXP", a**3, "EQ", "@bad", "JUMPI", "STOP"] + bad
        return GenTest(Fn(name, [("x", U)], body), [[a]], True, kind, failure, feats, abstraction_in_model=True)
    if kind == "bytes_len":
        # bytes b: fail iff len == 65 and b[0] == 0x42
        body = (arg(0) + [4, "ADD", "DUP1", "CALLDATALOAD", 65, "EQ", "ISZERO", "@ok", "JUMPI", 32, "ADD", "CALLDATALOAD", 248, "SHR", 0x42, "EQ", "@bad", "JUMPI", "STOP",
                           ":ok", "STOP"] + bad)
        return GenTest(Fn(name, [("b", ("bytes",))], body), [[bytes([0x42]) + bytes(64)]], True, kind, failure, feats | {"dynamic"})
    if kind == "bytes_tail":
        # bytes sig: fail iff len == 65 and the *last* byte sig[64] == 0x1b
        body = (arg(0) + [4, "ADD", "DUP1", "CALLDATALOAD", 65, "EQ", "ISZERO", "@ok", "JUMPI", 32 + 64, "ADD", "CALLDATALOAD", 248, "SHR", 0x1B, "EQ", "@bad", "JUMPI", "STOP",
                           ":ok", "STOP"] + bad)
        return GenTest(Fn(name, [("sig", ("bytes",))], body), [[bytes(64) + bytes([0x1B])]], True, kind, failure, feats | {"dynamic"})
    if kind == "disarm":
        # never fails, but overwrites the slot written by setUp on its main path (other tests must not see this)
        body = arg(0) + [7, "EQ", "@other", "JUMPI", 0, 1, "SSTORE", "STOP", ":other", 5, 2, "SSTORE", "STOP"] + bad
        return GenTest(Fn(name, [("x", U)], body), [[7], [0]], False, kind, failure, feats | {"writes-setup-slot"})
    if kind == "storage2":
        # guarded by the exact value written by setUp
        body = [1, "SLOAD", SETUP_SLOT_VALUE, "EQ"] + arg(0) + [42, "EQ", "AND", "@bad", "JUMPI", "STOP"] + bad
        return GenTest(Fn(name, [("y", U)], body), [[42]], True, kind, failure, feats | {"needs-setup"})
    if kind in ("smod_zero", "mod_zero", "div_zero", "sdiv_zero", "addmod_zero", "mulmod_zero"):
        # the modulus / divisor is symbolic and forced to zero by the guard: the EVM result is 0, so the failure
        # (result == K != 0) is unreachable; a refinement that forgets the zero case makes it "reachable"
        K = rng.randrange(1, 2**64)
        op = {"smod_zero": "SMOD", "mod_zero": "MOD", "div_zero": "DIV", "sdiv_zero": "SDIV", "addmod_zero": "ADDMOD", "mulmod_zero": "MULMOD"}[kind]
        if op in ("ADDMOD", "MULMOD"):
            body = arg(2) + arg(1) + arg(0) + [op, K, "EQ"] + arg(2) + ["ISZERO", "AND", "@bad", "JUMPI", "STOP"] + bad
            return GenTest(Fn(name, [("x", U), ("y", U), ("z", U)], body), [[K, 0, 0], [K, 1, 0], [1, K, 0]], False, kind, failure, feats, needs_refinement=True)
        body = arg(1) + arg(0) + [op, K, "EQ"] + arg(1) + ["ISZERO", "AND", "@bad", "JUMPI", "STOP"] + bad
        return GenTest(Fn(name, [("x", U), ("y", U)], body), [[K, 0], [0, 0]], False, kind, failure, feats, needs_refinement=True)
    if kind == "warp_writer":
        # never fails; changes block fields on its main path (other tests must not see this)
        K = 0x77777
        body = arg(0) + [7, "EQ", "@other", "JUMPI"] + vm("warp(uint256)", [K]) + vm("roll(uint256)", [K]) + ["STOP", ":other", "STOP"] + bad
        return GenTest(Fn(name, [("x", U)], body), [[7], [0]], False, kind, failure, feats | {"writes-block"})
    if kind == "time_guard":
        # fails iff the block timestamp / number were changed by someone else (unreachable from the post-setUp state)
        K = 0x77777
        body = ["TIMESTAMP", K, "EQ", "NUMBER", K, "EQ", "OR"] + arg(0) + [42, "EQ", "AND", "@bad", "JUMPI", "STOP"] + bad
        return GenTest(Fn(name, [("y", U)], body), [[42]], False, kind, failure, feats | {"reads-block"})
    if kind == "arr_sum":
        K = rng.getrandbits(64) + 2
        body = (arg(0) + [4, "ADD", "DUP1", "CALLDATALOAD", 2, "EQ", "ISZERO", "@ok", "JUMPI", "DUP1", 32, "ADD", "CALLDATALOAD", "SWAP1", 64, "ADD", "CALLDATALOAD", "ADD",
                           K, "EQ", "@bad", "JUMPI", "STOP", ":ok", "POP", "STOP"] + bad)
        return GenTest(Fn(name, [("a", ("array", U, None))], body), [[[K - 1, 1]]], True, kind, failure, feats | {"dynamic"})
    if kind == "unsat":
        body = arg(0) + [1, "AND", 2, "EQ", "@bad", "JUMPI", "STOP"] + bad
        return GenTest(Fn(name, [("x", U)], body), [[0], [1], [2], [3], [M]], False, kind, failure, feats)
    if kind == "two_args":
        K = rng.getrandbits(128)
        body = arg(1) + arg(0) + ["SUB", 7, "EQ"] + arg(1) + [K, "EQ", "AND", "@bad", "JUMPI", "STOP"] + bad
        return GenTest(Fn(name, [("x", U), ("y", U)], body), [[K + 7, K]], True, kind, failure, feats)
    if kind == "storage":
        K = rng.getrandbits(200)
        body = arg(0) + [1, "SLOAD", "ADD", ("push", K, 32), "EQ", "@bad", "JUMPI", "STOP"] + bad
        return GenTest(Fn(name, [("x", U)], body), [[(K - SETUP_SLOT_VALUE) & M]], True, kind, failure, feats | {"needs-setup"})
    if kind == "signed":
        K = rng.randrange(1, 2**100)
        # x <s 0 and x + K == 0
        body = [0] + arg(0) + ["SLT"] + arg(0) + [K, "ADD", "ISZERO", "AND", "@bad", "JUMPI", "STOP"] + bad
        return GenTest(Fn(name, [("x", ("int", 256))], body), [[-K]], True, kind, failure, feats)
    if kind == "shift":
        s, K = rng.randrange(1, 200), rng.getrandbits(40) | 1
        body = arg(0) + [s, "SHR", K, "EQ"] + arg(0) + [1, "AND", "AND", "@bad", "JUMPI", "STOP"] + bad
        return GenTest(Fn(name, [("x", U)], body), [[(K << s) | 1]], True, kind, failure, feats)
    if kind in ("div_zero_hit", "mod_zero_hit", "sdiv_zero_hit", "smod_zero_hit"):
        # the dual of the *_zero kinds: the failure needs the EVM convention "x op 0 == 0" with a non-zero dividend; a refinement whose
        # zero-divisor case is wrong (or guarded on the wrong operand) makes the refined query unsat and the test PASS
        K = rng.choice([7, rng.randrange(1, 2**64), M - rng.randrange(0, 5)])
        op = {"div_zero_hit": "DIV", "mod_zero_hit": "MOD", "sdiv_zero_hit": "SDIV", "smod_zero_hit": "SMOD"}[kind]
        body = arg(1) + arg(0) + [op, "ISZERO"] + arg(1) + ["ISZERO", "AND"] + arg(0) + [("push", K, 32), "EQ", "AND", "@bad", "JUMPI", "STOP"] + bad
        return GenTest(Fn(name, [("x", U), ("y", U)], body), [[K, 0]], True, kind, failure, feats, needs_refinement=True)
    if kind == "lit_slot":
        # reads the slot that setUp wrote through the hard-coded hash constant: never fails (whatever another test or path hashed meanwhile)
        body = [("push", LIT_HASH_SLOT, 32), "SLOAD", 7, "EQ", "ISZERO", "@bad", "JUMPI", "STOP"] + bad
        return GenTest(Fn(name, [], body), [], False, kind, failure, feats | {"literal-hash-slot"})
    if kind == "hash_touch":
        # computes that very hash with SHA3 (and touches the slot through it); never fails
        body = [LIT_HASH_WORD, 0, "MSTORE", 32, 0, "SHA3", "SLOAD", "POP"] + arg(0) + [0, "MSTORE", 32, 0, "SHA3", "POP", "STOP"] + bad
        return GenTest(Fn(name, [("x", U)], body), [], False, kind, failure, feats | {"runtime-hash-of-literal-preimage"})
    if kind == "vmassert_hard":
        # a vm.assert* whose negation the branching solver cannot decide within its time limit (a small mixing function): the failing branch
        # has to be kept and handed to the assertion solver.  Fails for exactly one x.
        C = rng.getrandbits(255) | 1
        x0 = rng.getrandbits(64)
        K = ((x0 * C) % (M + 1)) ^ ((x0 << 3) % (M + 1))
        expr = arg(0) + [("push", C, 32), "MUL"] + arg(0) + [3, "SHL", "XOR"]
        body = vm("assertNotEq(uint256,uint256)", expr, [("push", K, 32)]) + ["STOP"]
        return GenTest(Fn(name, [("x", U)], body), [[x0]], True, kind, "vmassert", feats | {"hard-assert-condition"})
    if kind == "arr_len_mul":
        # the same failing path once per candidate length of a dynamic array; only some lengths are feasible and infeasibility needs refinement:
        # x * y == 21 && x == 7 && y == a.length + 3  (feasible for a.length == 0 only)
        body = (arg(0) + [4, "ADD", "CALLDATALOAD", 3, "ADD"] + arg(2) + ["EQ"] + arg(1) + [7, "EQ", "AND"] + arg(2) + arg(1) + ["MUL", 21, "EQ", "AND", "@bad", "JUMPI", "STOP"] + bad)
        return GenTest(Fn(name, [("a", ("array", U, None)), ("x", U), ("y", U)], body), [[[], 7, 3]], True, kind, failure, feats | {"dynamic", "same-shape-per-length"}, needs_refinement=True)
    if kind == "multi_width":
        # the same abstract operation at several bit widths on one path: MOD (256), ADDMOD (264) and MULMOD (512) all use the remainder
        # abstraction, MUL (256) and MULMOD (512) the multiplication one; every one of them has to be refined
        m = rng.choice([7, 11, 13])
        x0 = rng.randrange(m, 1000)
        y0 = rng.randrange(1, 50)
        r1, r2, r3 = x0 % m, (x0 + y0) % m, (x0 * y0) % m
        body = (arg(2) + arg(0) + ["MOD", r1, "EQ"] + arg(2) + arg(1) + arg(0) + ["ADDMOD", r2, "EQ", "AND"] + arg(2) + arg(1) + arg(0) + ["MULMOD", r3, "EQ", "AND"]
                + arg(1) + arg(0) + ["MUL", x0 * y0, "EQ", "AND"] + arg(2) + [m, "EQ", "AND", "@bad", "JUMPI", "STOP"] + bad)
        return GenTest(Fn(name, [("x", U), ("y", U), ("z", U)], body), [[x0, y0, m]], True, kind, failure, feats, needs_refinement=True)
    if kind == "mul_exp":
        # a refinable abstraction (MUL) and an un-refinable one (EXP with symbolic exponent) on the same failing path; never fails concretely:
        # x * y == 35 has (1,35),(5,7),(7,5),(35,1),... and none of them gives x ** y == 2
        body = arg(1) + arg(0) + ["MUL", 35, "EQ"] + arg(1) + arg(0) + ["EXP", 2, "EQ", "AND"] + arg(0) + [100, "GT", "AND"] + arg(1) + [100, "GT", "AND", "@bad", "JUMPI", "STOP"] + bad
        return GenTest(Fn(name, [("x", U), ("y", U)], body), [[5, 7], [35, 1], [1, 35]], False, kind, failure, feats, needs_refinement=True, abstraction_in_model=True)
    if kind == "two_fail":
        # two failing paths that share the input x: their counterexamples are two different models with the same variable names
        a, b = rng.randrange(11, 1000), rng.randrange(1, 1000)
        body = (arg(0) + [10, "LT", "ISZERO", "@lo", "JUMPI"] + arg(1) + arg(0) + [1, "ADD", "EQ", "@bad", "JUMPI", "STOP",
                ":lo"] + arg(2) + [b, "EQ", "@bad", "JUMPI", "STOP"] + bad)
        return GenTest(Fn(name, [("x", U), ("y", U), ("z", U)], body), [[a, a + 1, 0], [3, 0, b]], True, kind, failure, feats)
    if kind == "nested_stuck":
        # an internal error (symbolic memory offset) inside a nested call, and the assertion failure only *after* that call returned:
        # the exploration of this path is incomplete, so PASS would be unsound
        K = rng.randrange(1, 2**12)
        after = arg(0) + [K, "EQ", "@bad", "JUMPI", "STOP"] + bad
        t = GenTest(Fn(name, [("x", U)], A.call_cheat(A.TEST, "helper(uint256)", [arg(0)]) + ["POP"] + after), [[K]], True, kind, failure, feats | {"nested-call", "internal-error-in-callee"})
        t.helper = Fn("helper", [("v", U)], arg(0) + ["MLOAD", "POP", "STOP"])
        t.mk_body = lambda sig, after=after: A.call_cheat(A.TEST, sig, [arg(0)]) + ["POP"] + after
        return t
    if kind == "nested_assert":
        # the failing assertion happens inside a nested call to this contract (helper selector 0xdeadbeef handled inline):
        K = rng.getrandbits(64)
        inner_sig = "helper(uint256)"
        body = (A.call_cheat(A.TEST, inner_sig, [arg(0)]) + ["POP", "STOP"])
        t = GenTest(Fn(name, [("x", U)], body), [[K]], True, kind, "vmassert", feats | {"nested-call"})
        t.helper = Fn("helper", [("v", U)], arg(0) + [K, "EQ", "@bad", "JUMPI", "STOP", ":bad"] + fail_tokens("vmassert"))
        return t
    if kind == "conj3":
        a, b, c = rng.getrandbits(32), rng.getrandbits(32), rng.getrandbits(32)
        body = (arg(0) + [a, "EQ", "ISZERO", "@ok", "JUMPI"] + arg(1) + [b, "LT", "ISZERO", "@ok", "JUMPI"] + arg(1) + arg(2) + ["ADD", b + c, "EQ", "@bad", "JUMPI", ":ok", "STOP"] + bad)
        return GenTest(Fn(name, [("x", U), ("y", U), ("z", U)], body), [[a, b, c], [a, b + 5, c - 5 if c >= 5 else c]], True, kind, failure, feats)
    if kind == "loop_guard":
        # for (i = 0; i < n; i++) {} ; fail iff n == k   (k iterations of a loop with a symbolic bound needed)
        k = rng.randrange(1, 5)
        body = ([0, ":top", "DUP1"] + arg(0) + ["EQ", "@done", "JUMPI", 1, "ADD", "DUP1", 40, "LT", "@done", "JUMPI", "@top", "JUMP",
                 ":done", k, "EQ"] + arg(0) + [k, "EQ", "AND", "@bad", "JUMPI", "STOP"] + bad)
        return GenTest(Fn(name, [("n", U)], body), [[k]], True, kind, failure, feats | {"loop"}, min_loop=k)
    if kind == "two_dyn":
        # two dynamically sized parameters: fail iff both have one particular combination of candidate lengths (every one of the
        # 3 x 3 combinations of default size candidates has to be explored, whichever sibling path was finished before)
        if rng.random() < 0.5:
            typ, cands, mk = ("bytes",), [0, 65, 1024], (lambda n: bytes(n))
        else:
            typ, cands, mk = ("array", U, None), [0, 1, 2], (lambda n: [0] * n)
        L0, L1 = rng.choice(cands), rng.choice(cands)
        body = (arg(0) + [4, "ADD", "CALLDATALOAD", L0, "EQ"] + arg(1) + [4, "ADD", "CALLDATALOAD", L1, "EQ", "AND", "@bad", "JUMPI", "STOP"] + bad)
        return GenTest(Fn(name, [("a", typ), ("b", typ)], body), [[mk(L0), mk(L1)]], True, kind, failure, feats | {"dynamic", "two-dynamic"})
    if kind == "arr_loop":
        # sum over a uint256[] a ; fail iff length == L and sum == K
        L = rng.randrange(1, 4)
        K = rng.getrandbits(32) + L
        body = (arg(0) + [4, "ADD", "DUP1", "CALLDATALOAD", 0, 0,  # stack: base, len, i, acc
                          ":top", "DUP2", "DUP4", "EQ", "@done", "JUMPI",           # i == len ?
                          "DUP4", 32, "ADD", "DUP3", 32, "MUL", "ADD", "CALLDATALOAD", "ADD",  # acc += a[i]
                          "SWAP1", 1, "ADD", "SWAP1", "@top", "JUMP",
                          ":done", K, "EQ", "SWAP2", L, "EQ", "SWAP2", "SWAP1", "POP", "AND", "@bad", "JUMPI", "STOP"] + bad)
        return GenTest(Fn(name, [("a", ("array", U, None))], body), [[[K - (L - 1)] + [1] * (L - 1)]], True, kind, failure, feats | {"dynamic", "loop"}, min_loop=L)
    raise ValueError(kind)


def gen_contract(rng, ntests=3, name="T", kinds=None, failure=None, symbolic_setup=False, force_first=None):
    # setUp also writes a slot addressed by a hard-coded hash constant (keccak of a word that is not in halmos' precomputed table)
    body = [SETUP_SLOT_VALUE, 1, "SSTORE", 7, ("push", LIT_HASH_SLOT, 32), "SSTORE"]
    if symbolic_setup:
        # a stored symbolic value constrained by vm.assume (state-related constraint) and a second symbol that is
        # constrained but never stored (a constraint outside the state slice of the setUp path)
        body += A.svm_create_uint256("s") + ["DUP1", 100, "GT"] + [0x600, "MSTORE"] + vm("assume(bool)", [0x600, "MLOAD"]) + [3, "SSTORE"]
        body += A.svm_create_uint256("u") + [7, "EQ", 0x600, "MSTORE"] + vm("assume(bool)", [0x600, "MLOAD"])
    setup = Fn("setUp", [], body + ["STOP"])
    tests = [gen_test(rng, i, failure=failure, kinds=kinds) for i in range(ntests)]
    if force_first:
        # stratification: the caller cycles through the kinds so that every kind is exercised a guaranteed number of times per run
        tests[0] = gen_test(rng, 0, failure=failure, kinds=[force_first])
    if kinds is None and ntests >= 2 and rng.random() < 0.25:
        # state-interaction contract: an earlier test overwrites what setUp stored, a later test is guarded by it
        tests[0] = gen_test(rng, 0, failure=failure, kinds=["disarm"])
        tests[1] = gen_test(rng, 1, failure=failure, kinds=["storage2", "storage"])
    fns = [setup] + [t.fn for t in tests] + [t.helper for t in tests if hasattr(t, "helper")]
    # helper functions must have distinct names
    seen = 0
    for t in tests:
        if hasattr(t, "helper"):
            seen += 1
            if seen > 1:
                t.helper.name = f"helper{seen}"
                t.fn.body = t.mk_body(t.helper.sig) if hasattr(t, "mk_body") else A.call_cheat(A.TEST, t.helper.sig, [arg(0)]) + ["POP", "STOP"]
    spec = A.ContractSpec(name, fns)
    return spec, setup, tests


def boundary_values(rng, t):
    k = t[0]
    if k in ("uint", "int", "address", "bool"):
        return rng.choice([0, 1, 2, 41, 42, 43, 2**128, 2**255, M - 1, M, rng.getrandbits(64), rng.getrandbits(256)])
    if k == "bytesN":
        return bytes(rng.getrandbits(8) for _ in range(t[1]))
    return None
