"""Differential core shared by C01 / C02 / C08 / C09 / C20:

  symbolic run of a case (symrun)  ->  concrete inputs (random, boundary, path models)
  -> for each input: which yielded paths admit it (pathmodel.admits), and for each admitting
     path the reported end state evaluated at the input vs. the reference EVM (refevm).

C01 obligation: every admitting, non-stuck path reports exactly the reference end state.
C02 obligation: at least one path admits the input, unless the run is flagged as bounded or the
input violates a documented modelling assumption.
"""

from __future__ import annotations

import z3

import pathmodel
import refevm
import symrun
from halmos.bitvec import HalmosBitVec as BV

A160 = (1 << 160) - 1
HALT_ERRORS = {
    "InvalidJumpDestError": "badjump", "InvalidOpcode": "invalid", "StackUnderflowError": "underflow",
    "StackOverflowError": "overflow", "OutOfGasError": "oog", "OutOfBoundsRead": "oob",
    "WriteInStaticContext": "static", "InsufficientFunds": "funds", "MessageDepthLimitError": "depth",
    "InvalidParameter": "param", "InvalidContractPrefix": "prefix", "AddressCollision": "collision",
}


class Case:
    def __init__(self, contracts, target=0x1000, ncd=3, overrides=None, second_tx=None, static=False, label="", slots=None,
                 bal_addrs=None, gen_features=()):
        self.contracts = dict(contracts)
        self.target = target
        self.ncd = ncd
        self.overrides = dict(overrides or {})
        self.second_tx = second_tx
        self.static = static
        self.label = label
        self.slots = slots or {}
        self.bal_addrs = bal_addrs
        self.gen_features = tuple(gen_features)

    def describe(self):
        return dict(contracts={hex(a): c.hex() for a, c in self.contracts.items()}, target=hex(self.target), ncd=self.ncd,
                    overrides={k: str(v) for k, v in self.overrides.items()}, label=self.label,
                    second_tx=self.second_tx, static=self.static)


def candidate_slots(code: bytes, limit=8):
    """constants appearing as small PUSH operands in the code are candidate storage slots"""
    out = [0, 1, 2, 3]
    pc = 0
    while pc < len(code):
        op = code[pc]
        if 0x60 <= op <= 0x7F:
            n = op - 0x5F
            v = int.from_bytes(code[pc + 1 : pc + 1 + n], "big")
            if v < 16 and v not in out:
                out.append(v)
            pc += 1 + n
        else:
            pc += 1
    return out[:limit]


def mk_probe(case: Case):
    initial = set(case.contracts)
    bal_addrs = case.bal_addrs if case.bal_addrs is not None else sorted(initial | {0x9999})

    def probe(sv, ex):
        out = {}
        for a_bv in list(ex.storage.keys()):
            if not z3.is_bv_value(a_bv):
                continue
            a = a_bv.as_long()
            slots = case.slots.get(a) or ([0, 1, 2, 3] if a not in initial else candidate_slots(case.contracts[a]))
            for s in slots:
                out[("s", a, s)] = symrun.as_z3_word(sv.sload(ex, a_bv, BV(s)))
            for s in (0, 1, 2):
                if a_bv in ex.transient_storage:
                    out[("t", a, s)] = symrun.as_z3_word(sv.sload(ex, a_bv, BV(s), transient=True))
        for a_bv in list(ex.code.keys()):
            if z3.is_bv_value(a_bv) and a_bv.as_long() not in initial:
                c = ex.code[a_bv]
                data = c._code.unwrap() if hasattr(c, "_code") else c.unwrap()
                out[("code", a_bv.as_long())] = data
                bal_extra = a_bv.as_long()
                out[("b", bal_extra)] = symrun.as_z3_word(ex.balance_of(BV(bal_extra, size=160)))
        for a in bal_addrs:
            out[("b", a)] = symrun.as_z3_word(ex.balance_of(BV(a, size=160)))
        return out

    return probe


class Input:
    __slots__ = ("cd", "caller", "origin", "value", "balances", "source", "cd2", "caller2", "origin2", "value2", "tape")

    def describe(self):
        return dict(cd=[hex(x) for x in self.cd], caller=hex(self.caller), origin=hex(self.origin), value=hex(self.value),
                    balances={hex(k): hex(v) for k, v in self.balances.items()}, source=self.source,
                    cd2=[hex(x) for x in (self.cd2 or [])])


def pick(rng, bits=256):
    k = rng.random()
    if k < 0.45:
        return rng.choice([0, 1, 2, 3, 5, 31, 32, 255, 256, 2**16, 2**128, 2**255 - 1, 2**255, 2**255 + 1, 2**256 - 2, 2**256 - 1]) % (1 << bits)
    if k < 0.8:
        return rng.getrandbits(rng.choice([2, 4, 8, 16]))
    return rng.getrandbits(bits)


def random_input(case: Case, rng, consts=()):
    i = Input()
    pool = list(case.contracts)

    def word():
        if consts and rng.random() < 0.3:
            return (rng.choice(consts) + rng.choice([-1, 0, 0, 1])) % (1 << 256)
        if rng.random() < 0.08:
            return rng.choice(pool + [0x9999, 4])
        return pick(rng)

    i.cd = [word() for _ in range(case.ncd)]
    i.caller = rng.choice([0x2000, 0x2000, 0x2001, rng.choice(pool), pick(rng, 160) or 1])
    i.origin = rng.choice([0x2000, 0x3000, i.caller, pick(rng, 160)])
    i.value = rng.choice([0, 0, 1, 5, pick(rng, 64)])
    i.balances = {}
    for a in pool + [i.caller, 0x9999]:
        if rng.random() < 0.75:
            i.balances[a] = rng.choice([0, 1, 2, 5, 7, 100, 10**18, 2**100, pick(rng, 96)])
    i.source = "random"
    i.cd2 = [word() for _ in range(case.second_tx[1])] if case.second_tx else None
    i.caller2, i.origin2, i.value2 = 0x2002, 0x2002, 0
    return i


def mined_constants(case: Case):
    out = set()
    for code in case.contracts.values():
        pc = 0
        while pc < len(code):
            op = code[pc]
            if 0x60 <= op <= 0x7F:
                n = op - 0x5F
                out.add(int.from_bytes(code[pc + 1 : pc + 1 + n], "big"))
                pc += 1 + n
            else:
                pc += 1
    return sorted(out)[:64]


def pins_for(r: symrun.SymRun, inp: Input):
    pn = pathmodel.Pins()
    ins = r.inputs
    for k in range(len(inp.cd)):
        pn.scalar(ins[f"cd{k}"], inp.cd[k])
    pn.scalar(ins["caller"], inp.caller)
    pn.scalar(ins["origin"], inp.origin)
    pn.scalar(ins["value"], inp.value)
    if inp.cd2 is not None and "caller_2" in ins:
        for k in range(len(inp.cd2)):
            pn.scalar(ins[f"cd{k}_2"], inp.cd2[k])
        pn.scalar(ins["caller_2"], inp.caller2)
        pn.scalar(ins["origin_2"], inp.origin2)
        pn.scalar(ins["value_2"], inp.value2)
    pn.array(r.balance, inp.balances)
    return pn


def run_reference(case: Case, inp: Input, creates, step_budget=200_000):
    """returns dict(status, data, world, evm) ; raises refevm.Unsupported / StepBudget"""
    W = refevm.World()
    for a, c in case.contracts.items():
        W.get(a).code = c
        W.get(a).nonce = 1
    for a, v in inp.balances.items():
        W.get(a).balance = v
    script = [c.as_long() if z3.is_bv_value(c) else None for c in creates]
    state = {"k": 0}

    def newaddr(evm, creator, salt, init):
        k = state["k"]
        state["k"] += 1
        if k < len(script) and script[k] is not None:
            return script[k]
        return 0xDEAD0000 + k

    ev = refevm.EVM(W, origin=inp.origin, newaddr=newaddr, step_budget=step_budget)
    if getattr(case, "foundry", False):
        import foundry

        foundry.Foundry(ev, tape=list(getattr(inp, "tape", None) or getattr(case, "default_tape", None) or []))
        try:
            ok, ret, kind = ev.call(case.target, inp.caller, inp.value, bytes(4) + b"".join(x.to_bytes(32, "big") for x in inp.cd),
                                    transfer=False, static=case.static)
        except foundry.TestFailed as e:
            return dict(ok=False, ret=b"", kind="test-failed", world=W, evm=ev, first=None, requested=state["k"], script=script, why=e.why)
        except foundry.AssumeRejected:
            return dict(ok=False, ret=b"", kind="assume-rejected", world=W, evm=ev, first=None, requested=state["k"], script=script)
        return dict(ok=ok, ret=ret, kind=kind, world=W, evm=ev, first=(ok, ret, kind), requested=state["k"], script=script)
    ok, ret, kind = ev.call(case.target, inp.caller, inp.value, bytes(4) + b"".join(x.to_bytes(32, "big") for x in inp.cd),
                            transfer=False, static=case.static)
    first = (ok, ret, kind)
    if case.second_tx and ok:
        W.clear_transient()
        del ev.logs[:]  # the reported end state is that of the second transaction
        ev.origin = inp.origin2
        ok, ret, kind = ev.call(case.second_tx[0], inp.caller2, inp.value2,
                                bytes(4) + b"".join(x.to_bytes(32, "big") for x in inp.cd2), transfer=False)
    return dict(ok=ok, ret=ret, kind=kind, world=W, evm=ev, first=first, requested=state["k"], script=script)


def known_trigger(tr):
    """mechanisms of known findings, recognised on the *reference* trace"""
    for k in ("msize_after_read_expansion", "static_value_call", "sha3_85_ff", "extcodehash_codeless_existing"):
        if tr.get(k):
            return k
    if tr["maxstack"] > 1000:
        return "stack-limit"
    return None


def status_of(p):
    if p.error is None:
        return "ok"
    if p.error == "Revert":
        return "revert"
    if p.error in HALT_ERRORS:
        return "halt"
    if p.error == "FailCheatcode":
        return "failcheat"
    return "other:" + str(p.error)


def compare_path(case, p, vals, keys, ref, res):
    """compare one admitting path's reported end state (evaluated) with the reference.  Returns a
    difference description or None."""
    want_status = "ok" if ref["ok"] else ("revert" if ref["kind"] == "revert" else "failcheat" if ref["kind"] == "test-failed" else "halt")
    got_status = status_of(p)
    if want_status == "failcheat" and got_status == "failcheat":
        return None  # a failed vm.assert* ends the test; no end state to compare
    if got_status != want_status:
        return dict(field="status", got=f"{got_status} ({p.error}: {p.errmsg})", want=f"{want_status} ({ref['kind']})")
    got = dict(zip(keys, vals))
    want_data = ref["ret"] if want_status in ("ok", "revert") else b""
    out_v = got.get("__out")
    out_len = got.get("__outlen", 0)
    got_data = b"" if out_v is None else out_v.to_bytes(out_len, "big")
    if got_data != want_data:
        return dict(field="output", got=got_data.hex(), want=want_data.hex())
    if want_status != "ok":
        return None
    W = ref["world"]
    for k, v in got.items():
        if not isinstance(k, tuple):
            continue
        if k[0] == "s":
            w = W.get(k[1]).storage.get(k[2], 0)
            if v != w:
                return dict(field=f"storage[{hex(k[1])}][{k[2]}]", got=hex(v), want=hex(w))
            res["counters"]["storage_slots_compared"] += 1
        elif k[0] == "t":
            # transient storage after the transaction: still visible in the end state of the same tx
            w = W.get(k[1]).tstorage.get(k[2], 0)
            if v != w:
                return dict(field=f"transient[{hex(k[1])}][{k[2]}]", got=hex(v), want=hex(w))
        elif k[0] == "b":
            w = W.get(k[1]).balance if k[1] in W.acc else 0
            if v != w:
                return dict(field=f"balance[{hex(k[1])}]", got=hex(v), want=hex(w))
            res["counters"]["balances_compared"] += 1
        elif k[0] == "code":
            n = got.get(("codelen", k[1]), 0)
            gb = b"" if v is None else v.to_bytes(n, "big")
            wb = W.get(k[1]).code if k[1] in W.acc else b""
            if gb != wb:
                return dict(field=f"code[{hex(k[1])}]", got=gb.hex(), want=wb.hex())
            res["counters"]["created_code_compared"] += 1
    # logs (top-level success only)
    glogs = got.get("__logs")
    if glogs is not None:
        wlogs = [(a, [t for t in topics], data) for (a, topics, data) in ref["evm"].logs]
        if glogs != wlogs:
            return dict(field="logs", got=str(glogs)[:600], want=str(wlogs)[:600])
        res["counters"]["logs_compared"] += len(wlogs)
    return None


def path_terms(p):
    """terms to evaluate for a path: output, probes, logs.  Returns (keys, terms, consts) where consts
    are already-concrete values keyed the same way."""
    keys, terms, consts = [], [], {}
    t = symrun.bytes_term(p.out)
    if t is not None:
        if z3.is_bv_value(t):
            consts["__out"] = t.as_long()
        else:
            keys.append("__out")
            terms.append(t)
        consts["__outlen"] = t.size() // 8
    for k, v in (p.probes or {}).items():
        if k == "__first_out":
            continue
        if k[0] == "code":
            bt = symrun.bytes_term(v)
            consts[("codelen", k[1])] = 0 if bt is None else bt.size() // 8
            if bt is None:
                consts[k] = None
                continue
            v = bt
        if isinstance(v, int):
            consts[k] = v
        elif z3.is_bv_value(v):
            consts[k] = v.as_long()
        else:
            keys.append(k)
            terms.append(v)
    # logs
    logspec = []
    for li, lg in enumerate(p.logs or []):
        a = lg.address
        topics = []
        for ti, tp in enumerate(lg.topics):
            tz = symrun.as_z3_word(tp)
            keys.append(("log", li, "topic", ti))
            terms.append(tz)
        data = lg.data.unwrap() if hasattr(lg.data, "unwrap") else lg.data
        dt = symrun.bytes_term(data)
        if dt is not None:
            keys.append(("log", li, "data"))
            terms.append(dt)
        logspec.append((a.as_long() if z3.is_bv_value(a) else None, len(lg.topics), 0 if dt is None else dt.size() // 8))
    return keys, terms, consts, logspec


_prep_cache = {}


def evaluate_path(p, pn):
    ent = _prep_cache.get(id(p))
    if ent is None or ent[0] is not p:
        keys, terms, consts, logspec = path_terms(p)
        if len(_prep_cache) > 2000:
            _prep_cache.clear()
        ent = (p, keys, terms, consts, logspec, pathmodel.Prepared(p.conds, terms))
        _prep_cache[id(p)] = ent
    _, keys, terms, consts, logspec, prep = ent
    verdict, vals = pathmodel.admits_prepared(prep, pn)
    if verdict != "sat":
        return verdict, None, None
    got = dict(consts)
    for k, v in zip(keys, vals):
        got[k] = v
    if not p.stuck and p.error is None:
        logs = []
        for li, (a, nt, dl) in enumerate(logspec):
            topics = [got[("log", li, "topic", ti)] for ti in range(nt)]
            data = got[("log", li, "data")].to_bytes(dl, "big") if dl else b""
            logs.append((a, topics, data))
        got["__logs"] = logs
    return "sat", list(got.keys()), list(got.values())


def diff_case(case: Case, rng, res, n_random=4, n_models=2, unknown_p=0.0, record_checks=False, record_appends=False,
              judge_c01=True, judge_c02=True, extra_inputs=(), max_paths=400, keep=False, skip_known=True):
    """run one case; appends violations to res['violations'] with 'prop' in {'C01','C02'}.  Returns the
    SymRun (for further monitors) or None when the symbolic run crashed."""
    args = symrun.make_args(**case.overrides) if case.overrides else None
    r = symrun.run_symbolic(case.contracts, target=case.target, ncd=case.ncd, args=args, probe=mk_probe(case),
                            unknown_p=unknown_p, unknown_seed=rng.getrandbits(30), record_checks=record_checks,
                            record_appends=record_appends, second_tx=case.second_tx, static=case.static, max_paths=max_paths)
    res["counters"]["programs"] += 1
    res["counters"]["paths"] += len(r.paths)
    res["counters"]["injected_unknowns"] += r.injected
    if r.budget_exceeded:
        res["counters"]["symbolic_step_budget_exceeded"] += 1
        return None
    if r.crash == "too many paths":
        res["counters"]["too_many_paths"] += 1
        return None
    if r.crash:
        res["violations"].append(dict(prop="C01", what="internal exception escaped SEVM.run (exploration aborted)", key="crash:" + r.crash.strip().splitlines()[-1][:60],
                                      case=case.describe(), crash=r.crash[-1200:]))
        return None
    nstuck = sum(1 for p in r.paths if p.stuck)
    res["counters"]["stuck_paths"] += nstuck
    flagged = r.bounded_loops > 0 or any("loop unrolling bound" in m or "incomplete" in m for _, m in r.logs)
    if flagged:
        res["counters"]["runs_flagged_bounded"] += 1
    consts = mined_constants(case)
    inputs = [random_input(case, rng, consts) for _ in range(n_random)] + list(extra_inputs)
    # path models: inputs satisfying each path (these exercise every reported path at least once)
    if n_models:
        in_syms = [v for k, v in r.inputs.items()]
        plist = [p for p in r.paths if not p.stuck]
        if len(plist) > 12:
            plist = rng.sample(plist, 12)
        for p in plist:
            try:
                models = pathmodel.path_models(p.conds, in_syms, n=n_models, rng=rng, timeout_ms=250)
            except z3.Z3Exception:
                models = []
            for m in models:
                i = Input()
                byname = {s.decl().name(): v for s, v in m.items()}
                i.cd = [byname.get(f"in_cd{k}", 0) for k in range(case.ncd)]
                i.caller = byname.get("in_caller", 0x2000)
                i.origin = byname.get("in_origin", 0x2000)
                i.value = byname.get("in_value", 0)
                i.balances = {a: rng.choice([0, 1, 7, 10**18]) for a in list(case.contracts) + [i.caller]}
                i.cd2 = [byname.get(f"in2_cd{k}", 0) for k in range(case.second_tx[1])] if case.second_tx else None
                i.caller2, i.origin2, i.value2 = byname.get("in2_caller", 0x2002), byname.get("in2_origin", 0x2002), byname.get("in2_value", 0)
                i.source = "path-model"
                inputs.append(i)
                res["counters"]["path_model_inputs"] += 1
    nontrivial = False
    for inp in inputs:
        if inp.value2 if case.second_tx else False:
            pass
        pn = pins_for(r, inp)
        admitting = []
        unknown = False
        for p in r.paths:
            verdict, keys, vals = evaluate_path(p, pn)
            if verdict == "sat":
                admitting.append((p, keys, vals))
            elif verdict == "unknown":
                unknown = True
        res["counters"]["inputs"] += 1
        if unknown:
            res["counters"]["oracle_timeouts"] += 1
            continue
        excl = getattr(case, "exclude_input", None)
        if excl is not None and admitting:
            # generator-specific exclusions of degenerate inputs (e.g. an input address that equals an address halmos assigns to a new contract)
            kept = [(p, k, v) for (p, k, v) in admitting if not excl(inp, [c for c in p.creates])]
            if not kept:
                res["counters"]["inputs_excluded_by_generator_rule"] += 1
                continue
            admitting = kept
        # reference run(s): one per distinct creation-address script among the admitting paths
        scripts = {}
        for p, keys, vals in admitting or [(None, None, None)]:
            sk = tuple(str(c) for c in (p.creates if p is not None else []))
            if sk in scripts:
                continue
            try:
                scripts[sk] = run_reference(case, inp, p.creates if p is not None else [])
            except refevm.Unsupported as e:
                res["counters"]["ref_unsupported"] += 1
                scripts[sk] = None
            except refevm.StepBudget:
                res["counters"]["ref_step_budget"] += 1
                scripts[sk] = None
        if any(v is None for v in scripts.values()):
            continue
        anyref = next(iter(scripts.values()))
        trig = known_trigger(anyref["evm"].tr) if skip_known else None
        if trig:
            res["counters"]["skipped_known_trigger:" + trig] += 1
            continue
        for op, n in anyref["evm"].tr["ops"].items():
            res["features"][f"op:{op:02x}"] += n
        for fk in anyref["evm"].tr["frames"]:
            res["features"]["frame:%s/%s" % fk] += 1
        res["counters"]["evaluations"] += 1
        if anyref["kind"] == "assume-rejected":
            # vm.assume(false) on this input: no reported path may admit it
            res["counters"]["inputs_rejected_by_assume"] += 1
            live_adm = [(p, k, v) for (p, k, v) in admitting if not p.stuck]
            if live_adm and judge_c01:
                p = live_adm[0][0]
                res["violations"].append(dict(prop="C13", what="a path admits an input that vm.assume excludes", key="assume-not-restricting", case=case.describe(), input=inp.describe(),
                                              path_error=p.error, unknown_p=unknown_p))
            continue
        if anyref["kind"] == "test-failed":
            # a failed vm.assert*: some FailCheatcode path must admit the input.  halmos does not add the asserted
            # relation to the continuing path (an over-approximation the property does not forbid: the failure is
            # reported for exactly the inputs of the failing branch), so the other admitting paths are not judged.
            res["counters"]["inputs_failing_an_assert"] += 1
            fails = [p for (p, k, v) in admitting if not p.stuck and status_of(p) == "failcheat"]
            if fails:
                res["counters"]["failing_inputs_reported_by_failcheat_path"] += 1
                res["counters"]["unjudged_continuations_past_failed_assert"] += len(admitting) - len(fails)
            elif any(p.stuck for (p, k, v) in admitting) or flagged:
                res["counters"]["failing_inputs_excused_stuck_or_bounded"] += 1
            elif judge_c01:
                res["violations"].append(dict(prop="C13", what="an input for which a vm.assert* relation is false is not reported by any FailCheatcode path", key="assert-failure-not-reported",
                                              case=case.describe(), input=inp.describe(), why=str(anyref.get("why"))[:200],
                                              paths=[dict(error=p.error, stuck=p.stuck) for (p, k, v) in admitting][:20], unknown_p=unknown_p))
            continue
        if not admitting:
            res["counters"]["inputs_uncovered"] += 1
            if flagged:
                res["counters"]["uncovered_excused_bounded"] += 1
            elif max(list(inp.balances.values()) + [0]) > 2**128 or anyref["evm"].tr.get("deal_above_max_eth"):
                res["counters"]["uncovered_excused_assumption"] += 1
            elif judge_c02:
                ref = anyref
                res["violations"].append(dict(prop="C02", what="no reported path admits a concrete input (behaviour dropped without a flag)",
                                              key="uncovered:" + ("ok" if ref["ok"] else str(ref["kind"])), case=case.describe(), input=inp.describe(),
                                              reference=dict(ok=ref["ok"], kind=ref["kind"], ret=ref["ret"].hex()[:400]),
                                              paths=[dict(error=p.error, stuck=p.stuck) for p in r.paths][:20], unknown_p=unknown_p))
            continue
        live = [(p, k, v) for (p, k, v) in admitting if not p.stuck]
        if len(admitting) > len(live):
            res["counters"]["inputs_hitting_stuck_path"] += 1
        for p, keys, vals in live:
            sk = tuple(str(c) for c in p.creates)
            ref = scripts[sk]
            res["counters"]["path_input_pairs"] += 1
            if inp.source == "path-model":
                res["counters"]["path_model_pairs"] += 1
            if not judge_c01:
                continue
            d = compare_path(case, p, vals, keys, ref, res)
            if d is not None:
                res["violations"].append(dict(prop="C01", what=f"a reported path admits the input but reports a different {d['field']} than the EVM",
                                              key="c01:" + d["field"].split("[")[0] + ":" + str(p.error), case=case.describe(), input=inp.describe(), difference=d,
                                              path_error=p.error, creates=[str(c) for c in p.creates], unknown_p=unknown_p))
        if len(r.paths) >= 2 or anyref["evm"].tr["maxdepth"] >= 2:
            nontrivial = True
    if nontrivial:
        import hashlib

        h = hashlib.sha256(repr(sorted((a, c) for a, c in case.contracts.items())).encode()).hexdigest()[:16]
        res["distinct"].append(h)
    return r
