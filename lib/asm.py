"""Tiny EVM assembler with labels (independent of halmos: own opcode table)."""

OPS = {
    "STOP": 0x00, "ADD": 0x01, "MUL": 0x02, "SUB": 0x03, "DIV": 0x04, "SDIV": 0x05, "MOD": 0x06, "SMOD": 0x07,
    "ADDMOD": 0x08, "MULMOD": 0x09, "EXP": 0x0A, "SIGNEXTEND": 0x0B,
    "LT": 0x10, "GT": 0x11, "SLT": 0x12, "SGT": 0x13, "EQ": 0x14, "ISZERO": 0x15, "AND": 0x16, "OR": 0x17,
    "XOR": 0x18, "NOT": 0x19, "BYTE": 0x1A, "SHL": 0x1B, "SHR": 0x1C, "SAR": 0x1D,
    "SHA3": 0x20, "KECCAK256": 0x20,
    "ADDRESS": 0x30, "BALANCE": 0x31, "ORIGIN": 0x32, "CALLER": 0x33, "CALLVALUE": 0x34, "CALLDATALOAD": 0x35,
    "CALLDATASIZE": 0x36, "CALLDATACOPY": 0x37, "CODESIZE": 0x38, "CODECOPY": 0x39, "GASPRICE": 0x3A,
    "EXTCODESIZE": 0x3B, "EXTCODECOPY": 0x3C, "RETURNDATASIZE": 0x3D, "RETURNDATACOPY": 0x3E, "EXTCODEHASH": 0x3F,
    "BLOCKHASH": 0x40, "COINBASE": 0x41, "TIMESTAMP": 0x42, "NUMBER": 0x43, "DIFFICULTY": 0x44, "PREVRANDAO": 0x44,
    "GASLIMIT": 0x45, "CHAINID": 0x46, "SELFBALANCE": 0x47, "BASEFEE": 0x48,
    "POP": 0x50, "MLOAD": 0x51, "MSTORE": 0x52, "MSTORE8": 0x53, "SLOAD": 0x54, "SSTORE": 0x55, "JUMP": 0x56,
    "JUMPI": 0x57, "PC": 0x58, "MSIZE": 0x59, "GAS": 0x5A, "JUMPDEST": 0x5B, "TLOAD": 0x5C, "TSTORE": 0x5D,
    "MCOPY": 0x5E, "PUSH0": 0x5F,
    "LOG0": 0xA0, "LOG1": 0xA1, "LOG2": 0xA2, "LOG3": 0xA3, "LOG4": 0xA4,
    "CREATE": 0xF0, "CALL": 0xF1, "CALLCODE": 0xF2, "RETURN": 0xF3, "DELEGATECALL": 0xF4, "CREATE2": 0xF5,
    "STATICCALL": 0xFA, "REVERT": 0xFD, "INVALID": 0xFE, "SELFDESTRUCT": 0xFF,
}
for _i in range(1, 33):
    OPS[f"PUSH{_i}"] = 0x5F + _i
for _i in range(1, 17):
    OPS[f"DUP{_i}"] = 0x7F + _i
    OPS[f"SWAP{_i}"] = 0x8F + _i
NAMES = {}
for _k, _v in OPS.items():
    NAMES.setdefault(_v, _k)


def asm(src) -> bytes:
    """src: list of tokens:
    'OPNAME' | int (shortest PUSH; 0 -> PUSH0) | ('push', value, width) | ':label' (JUMPDEST)
    | '@label' (PUSH2 label) | bytes (raw)"""
    labels = {}
    items = []
    pos = 0
    for t in src:
        if isinstance(t, str) and t.startswith(":"):
            labels[t[1:]] = pos
            items.append(bytes([0x5B]))
            pos += 1
        elif isinstance(t, str) and t.startswith("@"):
            items.append(("l", t[1:]))
            pos += 3
        elif isinstance(t, bool):
            raise TypeError(t)
        elif isinstance(t, int):
            if t == 0:
                items.append(bytes([0x5F]))
                pos += 1
            else:
                n = (t.bit_length() + 7) // 8
                items.append(bytes([0x5F + n]) + t.to_bytes(n, "big"))
                pos += 1 + n
        elif isinstance(t, tuple):
            _, v, w = t
            items.append(bytes([0x5F + w]) + v.to_bytes(w, "big"))
            pos += 1 + w
        elif isinstance(t, (bytes, bytearray)):
            items.append(bytes(t))
            pos += len(t)
        else:
            items.append(bytes([OPS[t]]))
            pos += 1
    out = b""
    for it in items:
        if isinstance(it, tuple):
            out += bytes([0x61]) + labels[it[1]].to_bytes(2, "big")
        else:
            out += it
    return out


def creation(runtime: bytes) -> bytes:
    """initcode that returns `runtime`"""
    n = len(runtime)
    head = asm([("push", n, 2), ("push", 13, 2), 0, "CODECOPY", ("push", n, 2), 0, "RETURN"])
    assert len(head) == 13, len(head)
    return head + runtime


def disasm(code: bytes) -> str:
    out = []
    pc = 0
    while pc < len(code):
        op = code[pc]
        if 0x60 <= op <= 0x7F:
            n = op - 0x5F
            out.append(f"PUSH{n} 0x{code[pc+1:pc+1+n].hex()}")
            pc += 1 + n
        else:
            out.append(NAMES.get(op, f"0x{op:02x}"))
            pc += 1
    return " ".join(out)
