"""C09 workload: trees of CALL / STATICCALL / DELEGATECALL / CALLCODE / CREATE / CREATE2 frames over a
pool of scripted contracts.

Every contract is a script of actions:
  REC   record CALLER / CALLVALUE / ADDRESS / ORIGIN into its own storage
  W     write storage, transient storage, emit a log
  BR    branch on a (forwarded) calldata word  -> frames fork into several paths
  FWD   forward a call of kind K (with value) to a deeper contract, record flag / returndata,
        optionally write state again *after* the call returned
  NEW   CREATE / CREATE2 a child from a small initcode pool
  END   return | revert | invalid | out-of-bounds RETURNDATACOPY | stop
The root re-reads all observable state after the tree has finished and returns it.
All frames see the same three symbolic calldata words (forwarded verbatim)."""

from __future__ import annotations

from asm import asm
import gen
from diffcore import Case

ROOT = 0x1000
POOL = [0x1100, 0x1200, 0x1300]
ARG = 0x100
RET = 0x180
KINDS = ["CALL", "STATICCALL", "DELEGATECALL", "CALLCODE"]
ENDS = ["ret", "ret", "revert", "invalid", "oob", "stop"]


class TreeGen:
    def __init__(self, rng, depth_limit=4, creates=True, enumerate_spec=None):
        self.r = rng
        self.lbl = 0
        self.features = set()
        self.creates = creates
        self.initcodes = gen.standard_initcodes()
        self.spec = enumerate_spec  # optional forced (kind, end) choices, consumed in order

    def L(self):
        self.lbl += 1
        return f"c{self.lbl}"

    def choose_kind(self, me_idx):
        if self.spec and me_idx in self.spec.get("kind_by_ctx", {}):
            return self.spec["kind_by_ctx"][me_idx]
        return self.r.choice(KINDS + ["CALL"])

    def choose_end(self, me_idx):
        if self.spec and me_idx in self.spec.get("end_by_ctx", {}):
            return self.spec["end_by_ctx"][me_idx]
        return self.r.choice(ENDS)

    def cdw(self, i=None):
        i = self.r.randrange(3) if i is None else i
        return [4 + 32 * i, "CALLDATALOAD"]

    def small_value(self):
        r = self.r
        k = r.random()
        if k < 0.45:
            return [0]
        if k < 0.7:
            return [r.choice([1, 2, 5])]
        return self.cdw() + [7, "AND"]

    def rec(self):
        self.features.add("rec")
        toks = []
        for slot, op in ((0, "CALLER"), (1, "CALLVALUE"), (2, "ADDRESS"), (3, "ORIGIN")):
            if self.r.random() < 0.8:
                toks += [op, slot, "SSTORE"]
        return toks

    def write(self):
        r = self.r
        k = r.random()
        if k < 0.45:
            self.features.add("w:sstore")
            return self.cdw() + [r.choice([1, 0x11, 7]), "ADD", r.choice([4, 5]), "SSTORE"]
        if k < 0.7:
            self.features.add("w:tstore")
            return self.cdw() + [r.choice([0, 1]), "TSTORE"]
        if k < 0.85:
            self.features.add("w:log")
            return self.cdw() + [0, "MSTORE"] + self.cdw() + [32, 0, "LOG1"]
        self.features.add("w:tload-to-storage")
        return [r.choice([0, 1]), "TLOAD", 5, "SSTORE"]

    def fwd(self, me_idx, depth):
        """call to a deeper contract"""
        r = self.r
        deeper = POOL[me_idx + 1 :] if me_idx >= 0 else POOL
        if not deeper:
            return []
        to = r.choice(deeper + ([0x9999, 4] if r.random() < 0.15 else []))
        kind = self.choose_kind(me_idx)
        self.features.add("fwd:" + kind)
        toks = [100, 0, ARG, "CALLDATACOPY"]
        rsz = r.choice([32, 32, 0, 64])
        prefill = r.random() < 0.5
        if prefill:
            # only min(retSize, len(returndata)) bytes of the output area are written: the rest keeps what the caller had there
            self.features.add("prefilled-output-area")
            toks += [("push", 0x1111111111111111111111111111111111111111111111111111111111111111, 32), RET, "MSTORE",
                     ("push", 0x2222222222222222222222222222222222222222222222222222222222222222, 32), RET + 32, "MSTORE"]
        toks += [rsz, RET, 100, ARG]
        if kind in ("CALL", "CALLCODE"):
            toks += self.small_value()
        toks += [to, 0xFFFF, kind]
        # record: flag -> slot 6, returndatasize -> slot 9, first ret word -> slot 7 (storage may be
        # unavailable in a static frame: then record in memory only and fold into the return word)
        toks += ["DUP1", 0x40, "MSTORE", 6, "SSTORE"] if r.random() < 0.7 else [0x40, "MSTORE"]
        if r.random() < 0.6:
            toks += ["RETURNDATASIZE", 9, "SSTORE"]
        if prefill:
            toks += [RET, "MLOAD", RET + 32, "MLOAD", 3, "MUL", "XOR", 7, "SSTORE"]
        elif r.random() < 0.6:
            toks += [RET, "MLOAD", 7, "SSTORE"]
        if r.random() < 0.5:
            self.features.add("post-call-write")
            toks += self.cdw() + [0x99, "XOR", 8, "SSTORE"]
            if r.random() < 0.5:
                toks += [0x77, 1, "TSTORE"]
        if r.random() < 0.3:
            toks += [8, "SLOAD", 4, "SSTORE"]
        return toks

    def new(self):
        r = self.r
        if r.random() < 0.25:
            # a creation that fails (constructor reverts unless it is paid) must leave no trace: the same CREATE2 (same salt, same init code)
            # succeeds when it is retried with a value
            from gen import initcode_with_prologue
            init = initcode_with_prologue(asm(["CALLVALUE", "@paid", "JUMPI", 0, 0, "REVERT", ":paid"]), asm([0x2B, 0, "MSTORE", 32, 0, "RETURN"]))
            self.features.add("new:failed-create2-retried")
            toks = []
            padded = init + bytes((-len(init)) % 32)
            for i in range(0, len(padded), 32):
                toks += [("push", int.from_bytes(padded[i : i + 32], "big"), 32), 0x400 + i, "MSTORE"]
            salt = r.choice([0, 1, 7])
            toks += [salt, len(init), 0x400, 0, "CREATE2", 10, "SSTORE"]
            toks += [salt, len(init), 0x400, 1, "CREATE2", "DUP1", 11, "SSTORE", "EXTCODESIZE", 12, "SSTORE"]
            return toks
        init = r.choice(self.initcodes)
        self.features.add("new")
        toks = []
        padded = init + bytes((-len(init)) % 32)
        for i in range(0, len(padded), 32):
            toks += [("push", int.from_bytes(padded[i : i + 32], "big"), 32), 0x400 + i, "MSTORE"]
        v = self.small_value()
        if r.random() < 0.5:
            toks += [len(init), 0x400] + v + ["CREATE"]
        else:
            toks += [r.choice([0, 1]), len(init), 0x400] + v + ["CREATE2"]
        toks += ["DUP1", 10, "SSTORE", "EXTCODESIZE", 11, "SSTORE"] if r.random() < 0.7 else ["POP"]
        return toks

    def end(self, marker, me_idx=None):
        k = self.choose_end(me_idx)
        self.features.add("end:" + k)
        if k == "ret":
            return [marker] + self.cdw() + ["ADD", 0, "MSTORE", 0x40, "MLOAD", 0x20, "MSTORE", self.r.choice([32, 64]), 0, "RETURN"]
        if k == "revert":
            if self.r.random() < 0.4:
                self.features.add("end:revert-4-bytes")
                return [marker, 0xEE, "ADD", 0, "MSTORE", 4, 28, "REVERT"]  # short revert data (a 4-byte selector)
            return [marker, 0xEE, "ADD", 0, "MSTORE", 32, 0, "REVERT"]
        if k == "invalid":
            return ["INVALID"]
        if k == "oob":
            return ["RETURNDATASIZE", 1, "ADD", 0, 0, "RETURNDATACOPY", "STOP"]
        return ["STOP"]

    def actions(self, me_idx, depth, n):
        r = self.r
        toks = []
        for _ in range(n):
            k = r.random()
            if k < 0.2:
                toks += self.rec()
            elif k < 0.45:
                toks += self.write()
            elif k < 0.75:
                toks += self.fwd(me_idx, depth)
            elif k < 0.88 and depth > 0:
                L = self.L()
                self.features.add("frame-branch")
                cond = self.cdw() + [r.choice([1, 2, 5, 2**255]), r.choice(["LT", "GT", "EQ", "SLT"])]
                a = self.actions(me_idx, depth - 1, r.randrange(1, 3))
                b = self.actions(me_idx, depth - 1, r.randrange(0, 2))
                enda = self.end(0xA0 + me_idx, me_idx) if r.random() < 0.4 else [f"@j{L}", "JUMP"]
                toks += cond + [f"@e{L}", "JUMPI"] + a + enda + [f":e{L}"] + b + [f":j{L}"]
            elif k < 0.94 and self.creates:
                toks += self.new()
            else:
                toks += self.write()
        return toks

    def contract(self, me_idx):
        n = self.r.randrange(1, 5)
        body = self.actions(me_idx, 2, n)
        if self.r.random() < 0.35 and POOL[me_idx + 1 :]:
            body = self.fwd(me_idx, 2) + body  # pure forwarder prefix (keeps static frames alive)
        return asm(body + self.end(0xB0 + me_idx, me_idx))

    def root(self):
        r = self.r
        toks = []
        ncalls = r.randrange(1, 4)
        nout = 0

        def out(t):
            nonlocal nout
            o = 0x200 + 32 * nout
            nout += 1
            return t + [o, "MSTORE"]

        if r.random() < 0.5:
            toks += self.rec()
        for _ in range(ncalls):
            f = self.fwd(-1, 3)
            toks += f
            toks += out([0x40, "MLOAD"])  # success flag
            toks += out(["RETURNDATASIZE"])
            toks += out([RET, "MLOAD"])
            if r.random() < 0.5:
                toks += self.write()
            if r.random() < 0.25 and self.creates:
                toks += self.new()
        for s in range(0, 12):
            toks += out([s, "SLOAD"])
        for s in (0, 1):
            toks += out([s, "TLOAD"])
        for a in [ROOT] + POOL + [0x9999]:
            toks += out([a, "BALANCE"])
        endk = r.random()
        if endk < 0.85:
            toks += [32 * nout, 0x200, "RETURN"]
        elif endk < 0.95:
            toks += [32 * nout, 0x200, "REVERT"]
        else:
            toks += ["INVALID"]
        return asm(toks)


def make_tree_case(rng, spec=None, overrides=None):
    g = TreeGen(rng, enumerate_spec=spec)
    contracts = {}
    for i in reversed(range(len(POOL))):
        contracts[POOL[i]] = g.contract(i)
    contracts[ROOT] = g.root()
    slots = {a: list(range(0, 12)) for a in contracts}
    return Case(contracts, target=ROOT, ncd=3, overrides=overrides or {}, label="calltree", slots=slots,
                bal_addrs=sorted(list(contracts) + [0x9999, 4]), gen_features=sorted(g.features))
