"""Reference model of the Foundry cheatcode layer on top of lib/refevm.py (oracle for C03/C04/C10/C13/C14/C15).

Only semantics Foundry documents unambiguously are implemented.  Selectors are computed from
signatures by keccak; the assertion families are generated combinatorially (no forge-std source
is available offline)."""

from __future__ import annotations

import abi
import refevm
from refevm import keccak_int

HEVM = 0x7109709ECFA91A80626FF3989D68F67F5B1DD12D
SVM = 0xF3993A62377BCD56AE39D773740A5390411E8BC9
CONSOLE = 0x000000000000000000636F6E736F6C652E6C6F67
TEST = 0x7FA9385BE102AC3EAC297483DD6233D62B3E1496
CALLER = 0x1804C8AB1F12E6BBF3894D4083F33E07309D1F38
TEST_BALANCE = 0xFFFFFFFFFFFFFFFFFFFFFFFF
M = (1 << 256) - 1


def sel(sig):
    return int.from_bytes(abi.selector(sig), "big")


class AssumeRejected(Exception):
    """vm.assume(false): the input is not admissible"""


class TestFailed(Exception):
    """a vm.assert* failed / DSTest fail flag was set: the test fails (execution stops)"""

    def __init__(self, why):
        super().__init__(why)
        self.why = why


# --------------------------------------------------------------------------- assertion specs
WORD_TYPES = ["bool", "uint256", "int256", "address", "bytes32"]
DYN_TYPES = ["string", "bytes"]


def _type_tree(t):
    arr = t.endswith("[]")
    b = t[:-2] if arr else t
    base = {"bool": ("bool",), "uint256": ("uint", 256), "int256": ("int", 256), "address": ("address",), "bytes32": ("bytesN", 32),
            "string": ("string",), "bytes": ("bytes",)}[b]
    return ("array", base, None) if arr else base


def assertion_specs():
    """selector -> dict(family, type, msg, sig, types)"""
    out = {}
    def add(family, params, typ):
        for msg in (False, True):
            ps = params + (["string"] if msg else [])
            sig = f"assert{family}({','.join(ps)})"
            out[sel(sig)] = dict(family=family, type=typ, msg=msg, sig=sig, types=[_type_tree(p) for p in ps])
    add("True", ["bool"], "bool")
    add("False", ["bool"], "bool")
    for fam in ("Eq", "NotEq"):
        for t in WORD_TYPES + DYN_TYPES:
            add(fam, [t, t], t)
            add(fam, [t + "[]", t + "[]"], t + "[]")
    for fam in ("Lt", "Gt", "Le", "Ge"):
        for t in ("uint256", "int256"):
            add(fam, [t, t], t)
    return out


# families that exist in forge-std but to which we assign no semantics here (only used to recognise selectors)
def other_assertion_selectors():
    out = {}
    for fam in ("EqDecimal", "NotEqDecimal", "LtDecimal", "GtDecimal", "LeDecimal", "GeDecimal"):
        for t in ("uint256", "int256"):
            for msg in (False, True):
                sig = f"assert{fam}({t},{t},uint256{',string' if msg else ''})"
                out[sel(sig)] = sig
    for fam, extra in (("ApproxEqAbs", []), ("ApproxEqAbsDecimal", ["uint256"]), ("ApproxEqRel", []), ("ApproxEqRelDecimal", ["uint256"])):
        for t in ("uint256", "int256"):
            for msg in (False, True):
                ps = [t, t, "uint256"] + extra + (["string"] if msg else [])
                sig = f"assert{fam}({','.join(ps)})"
                out[sel(sig)] = sig
    return out


def s256(x):
    return x - (1 << 256) if x >> 255 else x


def assertion_holds(spec, args):
    """args: decoded ABI values (words as ints, bytes as bytes, arrays as lists)"""
    fam, typ = spec["family"], spec["type"]
    if fam == "True":
        return args[0] != 0
    if fam == "False":
        return args[0] == 0
    a, b = args[0], args[1]
    if fam == "Eq":
        return a == b
    if fam == "NotEq":
        return a != b
    if typ == "int256":
        a, b = s256(a), s256(b)
    return {"Lt": a < b, "Gt": a > b, "Le": a <= b, "Ge": a >= b}[fam]


ASSERTS = assertion_specs()

SIG = {n: sel(s) for n, s in dict(
    assume="assume(bool)", prank="prank(address)", prank2="prank(address,address)", startPrank="startPrank(address)",
    startPrank2="startPrank(address,address)", stopPrank="stopPrank()", deal="deal(address,uint256)", store="store(address,bytes32,bytes32)",
    load="load(address,bytes32)", fee="fee(uint256)", chainId="chainId(uint256)", coinbase="coinbase(address)", difficulty="difficulty(uint256)",
    prevrandao="prevrandao(bytes32)", roll="roll(uint256)", warp="warp(uint256)", etch="etch(address,bytes)", label="label(address,string)",
    getBlockNumber="getBlockNumber()",
).items()}
FAILED_SLOT = int.from_bytes(b"failed".ljust(32, b"\x00"), "big")


class Foundry:
    """install with Foundry(evm); afterwards evm.failed tells whether the global failure flag was set"""

    def __init__(self, evm: refevm.EVM, tape=None):
        self.evm = evm
        self.tape = list(tape or [])
        self.features = {}
        evm.failed = False
        evm.hooks[HEVM] = self.hevm
        evm.hooks[SVM] = self.svm
        evm.hooks[CONSOLE] = lambda evm_, f, kind, ca, value, data: (True, b"")
        evm.resolve_prank = self.resolve_prank

    def feat(self, k):
        self.features[k] = self.features.get(k, 0) + 1

    # prank state lives on the frame that issued the cheatcode
    def resolve_prank(self, f, to):
        p = getattr(f, "prank", None)
        if not p or to in (HEVM, SVM):
            return f.addr, None
        sender, origin, keep = p
        if not keep:
            f.prank = None
        self.feat("prank-applied:" + ("start" if keep else "once"))
        return sender, origin

    def hevm(self, evm, f, kind, ca, value, data):
        s = int.from_bytes(data[:4], "big")
        w = lambda i: int.from_bytes(data[4 + 32 * i : 36 + 32 * i].ljust(32, b"\x00"), "big")
        caller_frame = evm.frames[-1]
        if s in ASSERTS:
            spec = ASSERTS[s]
            args = abi.decode_tuple(spec["types"], data[4:], 0)
            self.feat("assert:" + spec["family"])
            if not assertion_holds(spec, args):
                evm.failed = True
                raise TestFailed(spec["sig"])
            return True, b""
        if s == SIG["assume"]:
            if w(0) == 0:
                raise AssumeRejected()
            return True, b""
        if s in (SIG["prank"], SIG["prank2"], SIG["startPrank"], SIG["startPrank2"]):
            if getattr(caller_frame, "prank", None):
                raise refevm.Unsupported("prank while a prank is active")
            two = s in (SIG["prank2"], SIG["startPrank2"])
            keep = s in (SIG["startPrank"], SIG["startPrank2"])
            caller_frame.prank = (w(0) & refevm.A160, (w(1) & refevm.A160) if two else None, keep)
            return True, b""
        if s == SIG["stopPrank"]:
            caller_frame.prank = None
            return True, b""
        if s == SIG["deal"]:
            evm.w.get(w(0) & refevm.A160).balance = w(1)
            if w(1) > 2**128:
                evm.tr["deal_above_max_eth"] = True  # halmos' documented practical assumption: balances <= 2^128
            return True, b""
        if s == SIG["store"]:
            a = w(0) & refevm.A160
            if a == HEVM and w(1) == FAILED_SLOT and w(2) == 1:
                evm.failed = True
                raise TestFailed("DSTest fail flag")
            if a not in evm.w.acc or not evm.w.exists(a):
                raise refevm.Unsupported("vm.store on a nonexistent account")
            evm.w.get(a).storage[w(1)] = w(2)
            return True, b""
        if s == SIG["load"]:
            a = w(0) & refevm.A160
            v = evm.w.acc[a].storage.get(w(1), 0) if a in evm.w.acc else 0
            return True, v.to_bytes(32, "big")
        if s == SIG["fee"]:
            evm.block["basefee"] = w(0)
            return True, b""
        if s == SIG["chainId"]:
            evm.block["chainid"] = w(0)
            return True, b""
        if s == SIG["coinbase"]:
            evm.block["coinbase"] = w(0) & refevm.A160
            return True, b""
        if s in (SIG["difficulty"], SIG["prevrandao"]):
            evm.block["difficulty"] = w(0)
            return True, b""
        if s == SIG["roll"]:
            evm.block["number"] = w(0)
            return True, b""
        if s == SIG["warp"]:
            evm.block["timestamp"] = w(0)
            return True, b""
        if s == SIG["etch"]:
            a = w(0) & refevm.A160
            code = abi.decode(("bytes",), data[4:], w(1))
            acc = evm.w.get(a)
            acc.code = bytes(code)
            acc.nonce = max(acc.nonce, 1)
            return True, b""
        if s == SIG["label"]:
            return True, b""
        if s == SIG["getBlockNumber"]:
            return True, evm.block["number"].to_bytes(32, "big")
        raise refevm.Unsupported(f"hevm cheatcode {s:08x}")

    def svm(self, evm, f, kind, ca, value, data):
        if data[:4] == bytes.fromhex("dc00ba4d"):
            # enableSymbolicStorage(address): the account's *persistent* storage becomes an arbitrary input; nothing observable changes otherwise
            self.feat("enableSymbolicStorage")
            return True, b""
        # fresh symbolic values are *inputs*: read from the tape
        if not self.tape:
            raise refevm.Unsupported("svm.create* without an input tape")
        v = self.tape.pop(0)
        return True, v if isinstance(v, bytes) else int(v).to_bytes(32, "big")


def world_with_test(runtime: bytes, extra=None):
    W = refevm.World()
    W.get(TEST).code = runtime
    W.get(TEST).nonce = 1
    W.get(TEST).balance = TEST_BALANCE
    for a, c in (extra or {}).items():
        W.get(a).code = c
        W.get(a).nonce = 1
    return W
