"""Case generators (workloads) and known-finding probes shared by C01/C02/C08/C09/C20."""

from __future__ import annotations

import random

import diffcore
import gen
from asm import asm
from diffcore import Case

# kind -> (quick count, thorough count)
C01_MIX = {
    "single": (220, 6000),
    "single-generic": (60, 1500),
    "calls": (120, 4000),
    "creates": (60, 1500),
    "twotx": (50, 1200),
    "static": (20, 400),
    "jump0": (24, 500),
}


def callee_pool(rng, n=3, base=0x1100, depth=2):
    """acyclic pool: contract i may call only contracts with a larger index"""
    addrs = [base + 0x100 * i for i in range(n)]
    contracts = {}
    feats = set()
    for i in reversed(range(n)):
        g = gen.Gen(rng, ncd=2, depth=depth, stmts=(1, 4), calls=bool(addrs[i + 1 :]), pool=tuple(addrs[i + 1 :]), self_addr=addrs[i],
                    end_mix=(0.6, 0.2, 0.1, 0.05), loops=False, creates=rng.random() < 0.2, initcodes=tuple(gen.standard_initcodes()))
        src = g.program()
        contracts[addrs[i]] = asm(src)
        feats |= g.features
    return addrs, contracts, feats


def make_case(kind, rng):
    if kind == "jump0":
        # the code starts with a JUMPDEST that is a jump target (a loop head / dispatcher at pc 0): the first pass sets a flag, a *taken*
        # jump back to 0 (concrete JUMP, concretely true JUMPI, two-sided symbolic JUMPI, JUMPI implied by the path) then takes the exit
        how = rng.choice(["jump", "jumpi-true", "jumpi-sym", "jumpi-implied"])
        c = rng.choice([1, 2, 0x80])
        back = {"jump": [0, "JUMP"], "jumpi-true": [rng.choice([1, 2**255]), 0, "JUMPI", "INVALID"],
                "jumpi-sym": [4, "CALLDATALOAD", c, "AND", 0, "JUMPI", 0x33, 0x220, "MSTORE", 0x60, 0x200, "RETURN"],
                "jumpi-implied": [4, "CALLDATALOAD", c, "AND", "ISZERO", "@skip", "JUMPI", 4, "CALLDATALOAD", c, "AND", 0, "JUMPI", "INVALID", ":skip", 0x44, 0x220, "MSTORE", 0x60, 0x200, "RETURN"]}[how]
        toks = [":start", 0x7E0, "MLOAD", "@exit", "JUMPI", 1, 0x7E0, "MSTORE", 36, "CALLDATALOAD", 7, "ADD", 0x200, "MSTORE"] + back + [":exit", 0x99, 0x240, "MSTORE", 0x60, 0x200, "RETURN"]
        code = asm(toks)
        assert code[0] == 0x5B
        return Case({0x1000: code}, ncd=2, label=kind, gen_features=["jump-to-pc0:" + how])
    if kind in ("single", "single-generic"):
        code, src, g = gen.gen_single(rng)
        ov = {"storage_layout": "generic"} if kind == "single-generic" else {}
        return Case({0x1000: code}, overrides=ov, label=kind, gen_features=sorted(g.features))
    if kind == "calls":
        addrs, contracts, feats = callee_pool(rng, n=rng.choice([2, 3]))
        g = gen.Gen(rng, calls=True, pool=tuple(addrs), stmts=(2, 5), depth=2, sym_call_target=0.0)
        # make sure at least one call statement is present
        src = g.call_stmt(2) + g.program()
        contracts[0x1000] = asm(src)
        ov = {"storage_layout": "generic"} if rng.random() < 0.2 else {}
        return Case(contracts, overrides=ov, label=kind, gen_features=sorted(g.features | feats))
    if kind == "creates":
        g = gen.Gen(rng, creates=True, initcodes=tuple(gen.standard_initcodes()), stmts=(2, 4), depth=2)
        src = g.create_stmt(2) + g.program()
        return Case({0x1000: asm(src)}, label=kind, gen_features=sorted(g.features))
    if kind == "twotx":
        g = gen.Gen(rng, stmts=(2, 5), depth=2, end_mix=(0.9, 0.05, 0.0, 0.05))
        # always touch transient + persistent storage
        src = [4, "CALLDATALOAD", 1, "TSTORE", 1, "TLOAD"] 
        src = g.out([1, "TLOAD"]) + g.out([1, "SLOAD"]) + [4, "CALLDATALOAD", 1, "TSTORE", 36, "CALLDATALOAD", 1, "SSTORE"] + g.program()
        return Case({0x1000: asm(src)}, second_tx=(0x1000, 3), label=kind, gen_features=sorted(g.features | {"second-tx"}))
    if kind == "static":
        g = gen.Gen(rng, stmts=(2, 5), depth=2)
        return Case({0x1000: asm(g.program())}, static=True, label=kind, gen_features=sorted(g.features | {"static-top"}))
    raise ValueError(kind)


# ----------------------------------------------------------------------------------- probes
def _probe_case(case, inputs, judge_c01=True, judge_c02=True):
    """returns the first deviation message or None"""
    from report import new_result

    res = new_result()
    ins = []
    for d in inputs:
        i = diffcore.Input()
        i.cd = list(d.get("cd", [0] * case.ncd))
        i.caller, i.origin, i.value = d.get("caller", 0x2000), d.get("origin", 0x2000), d.get("value", 0)
        i.balances = dict(d.get("balances", {}))
        i.source = "probe"
        i.cd2 = None
        i.caller2, i.origin2, i.value2 = 0x2002, 0x2002, 0
        ins.append(i)
    diffcore.diff_case(case, random.Random(1), res, n_random=0, n_models=0, extra_inputs=ins, judge_c01=judge_c01, judge_c02=judge_c02, skip_known=False)
    for v in res["violations"]:
        d = v.get("difference")
        return (v["what"] + (f": {d}" if d else ""))[:400]
    return None


def probe_msize():
    code = asm([0x40, "MLOAD", "POP", "MSIZE", 0, "MSTORE", 32, 0, "RETURN"])
    return _probe_case(Case({0x1000: code}, ncd=0), [{}])


def probe_returndatacopy_zero_oob():
    code = asm([0, 5, 0, "RETURNDATACOPY", 1, 0, "MSTORE", 32, 0, "RETURN"])
    return _probe_case(Case({0x1000: code}, ncd=0), [{}])


def probe_sha3_create2_magic():
    # keccak over 85 bytes starting with 0xff
    code = asm([("push", 0xFF << 248, 32), 0, "MSTORE", 85, 0, "SHA3", 0, "MSTORE", 32, 0, "RETURN"])
    return _probe_case(Case({0x1000: code}, ncd=0), [{}])


def probe_stack_limit():
    # 1025 pushes
    code = bytes([0x5F]) * 1025 + asm([1, 0, "MSTORE", 32, 0, "RETURN"])
    return _probe_case(Case({0x1000: code}, ncd=0), [{}])


def probe_jumpi_invalid_target():
    # JUMPI to an invalid destination under a symbolic condition: cd0 == 0 falls through
    code = asm([4, "CALLDATALOAD", 0xFFFF, "JUMPI", 7, 0, "MSTORE", 32, 0, "RETURN"])
    return _probe_case(Case({0x1000: code}, ncd=1), [{"cd": [0]}, {"cd": [1]}])


def probe_callcode_insufficient():
    callee = asm([1, 0, "MSTORE", 32, 0, "RETURN"])
    root = asm([32, 0, 0, 0, 4, "CALLDATALOAD", 0x1100, 0xFFFF, "CALLCODE", 32, "MSTORE", 64, 0, "RETURN"])
    return _probe_case(Case({0x1000: root, 0x1100: callee}, ncd=1), [{"cd": [5], "balances": {0x1000: 1}}, {"cd": [5], "balances": {0x1000: 9}}])


def probe_static_value_call():
    c = asm([1, 0, "MSTORE", 32, 0, "RETURN"])
    b = asm([0, 0, 0, 0, 1, 0x1200, 0xFFFF, "CALL", 0, "MSTORE", 32, 0, "RETURN"])
    a = asm([32, 0, 0, 0, 0x1100, 0xFFFF, "STATICCALL", 32, "MSTORE", 64, 0, "RETURN"])
    return _probe_case(Case({0x1000: a, 0x1100: b, 0x1200: c}, ncd=0), [{"balances": {0x1100: 10}}])


def probe_extcodehash_funded():
    # EXTCODEHASH of an account that exists (non-zero balance) but has no code is keccak256("") per EIP-1052
    code = asm([0x3000, "EXTCODEHASH", 0, "MSTORE", 32, 0, "RETURN"])
    return _probe_case(Case({0x1000: code}, ncd=0, bal_addrs=[0x1000, 0x3000]), [{"balances": {0x3000: 1}}])


PROBES = {
    "C01": [
        ("extcodehash-of-funded-account-without-code-is-zero", probe_extcodehash_funded),
        ("msize-ignores-read-expansion", probe_msize),
        ("returndatacopy-zero-size-out-of-bounds-does-not-halt", probe_returndatacopy_zero_oob),
        ("sha3-of-85-bytes-starting-0xff-returns-create2-magic", probe_sha3_create2_magic),
        ("no-1024-stack-limit", probe_stack_limit),
    ],
    "C02": [
        ("jumpi-invalid-target-symbolic-condition-drops-fallthrough", probe_jumpi_invalid_target),
    ],
    "C09": [
        ("value-call-inside-static-frame-not-rejected", probe_static_value_call),
        ("callcode-insufficient-balance-success-path-unconstrained", probe_callcode_insufficient),
    ],
}


def run_probes(prop):
    out = []
    for mech, fn in PROBES.get(prop, []):
        try:
            msg = fn()
        except Exception as e:  # a probe that crashes is itself a deviation
            msg = f"probe raised {type(e).__name__}: {e}"[:300]
        out.append((mech, msg))
    return out
