#!/bin/bash
# usage: tools/run_all.sh <quick|thorough> [seed] [ids...]   — runs the checks one after the other and prints one summary line each
cd "$(dirname "$0")/.."
TIER="${1:-quick}"; SEED="${2:-0}"; shift; shift
IDS="$*"; [ -z "$IDS" ] && IDS="$(cat tools/READY)"
for id in $IDS; do
  t0=$(date +%s)
  out=$(./check "$id" --tier "$TIER" --seed "$SEED" 2>&1); rc=$?
  t1=$(date +%s)
  echo "== $id tier=$TIER seed=$SEED rc=$rc wall=$((t1-t0))s"
  echo "$out" | grep -v "^  witness" | grep "^VIOLATION\|^  what\|^KNOWN-FINDING\|^INCONCLUSIVE\|^HELD\|harness crash" | cut -c1-300 | sort | uniq -c | head -12
done
