#!/usr/bin/env python3
"""Regenerates /verif/MANIFEST.json from the table below and validates it against the schema.
A property is claimed only when checks/<id>.py exists *and* it is listed in READY."""
import json
import os
import sys

VERIF = os.path.dirname(os.path.dirname(os.path.abspath(__file__)))

READY = set(os.environ.get("READY", "").split()) or None

CHECKS = {
    # id: (level, technique, level text, level note, design ref, engine)
}


def add(pid, level, technique, text, note, ref, engine):
    CHECKS[pid] = dict(level=level, technique=technique, text=text, note=note, ref=ref, engine=engine)


add("C01", "exploration", "differential runtime monitor: SEVM end states vs independent concrete EVM on pinned path inputs",
    "Every path SEVM.run yields for generated programs is replayed on an independent concrete EVM for several concrete inputs admitted by the path (path models + random/boundary inputs); status, output, storage, balances, code and logs must agree. Held on the executions generated, not a proof.",
    "trusts CPython, z3 (model evaluation), pysha3 keccak, and the from-scratch reference EVM in lib/refevm.py; gas is not modelled", "DESIGN.md §3 and §11.2 C01", "symrun+refevm+pathmodel")
add("C02", "exploration", "coverage monitor + independent re-solve of every pruned alternative recorded at Exec.check, with unknown-injection faults",
    "For generated programs every concrete input must be admitted by some yielded path unless a bound/err flag is raised; every unsat verdict that pruned an alternative is re-decided by an independent solver; solver 'unknown' is injected to show it never prunes; auxiliary axioms are falsification-tested.",
    "trusts z3 for the independent re-solve (yices as second opinion where available), reference EVM for confirming a dropped behaviour", "DESIGN.md §3 and §11.2 C02", "symrun+refevm+pathmodel")
add("C03", "exploration", "end-to-end differential: halmos verdict on generated test artifacts vs concrete replay of planted/boundary inputs on the reference EVM",
    "Generated forge-style artifacts are run through run_contract; a clean PASS is judged against concrete replays (planted solutions, boundary and random arguments) on the reference EVM with a Foundry cheatcode layer.",
    "trusts the reference EVM/Foundry layer and hand-assembled artifacts (no solc offline)", "DESIGN.md §3 and §11.2 C03", "artifacts+refevm")
add("C04", "exploration", "counterexample replay monitor: valid models re-parsed from solver output and replayed concretely",
    "Every PotentialModel marked valid is compared with an independent parse of the solver's output file and replayed on the reference EVM; models whose final query still contains an arithmetic abstraction must be labelled invalid.",
    "trusts the independent SMT-LIB model reader and the reference EVM", "DESIGN.md §3 and §11.2 C04", "artifacts+refevm")
add("C05", "fault_enumeration", "fault enumeration with a scripted stub solver (reply x delay per query) against a verdict-precedence model",
    "Enumerates per-path outcome vectors crossed with scripted solver replies (sat, abstract sat, unsat, unknown, timeout, garbage, empty, non-zero exit, killed) and completion orders, with and without --early-exit/--cache-solver; TestResult/MainResult exit codes are compared with an independent precedence model.",
    "trusts the 15-line precedence model taken from the property statement; real solver replaced by a stub executable", "DESIGN.md §3 and §11.2 C05", "artifacts+stubsolver")
add("C06", "exploration", "concrete differential over boundary/8-bit-exhaustive operand grids x operand representations, plus per-term SMT validity against an independent spec",
    "Every word-level operation of HalmosBitVec/HalmosBool and the SEVM opcode dispatch is evaluated on boundary grids and exhaustive 8-bit grids in all operand representations (int, term, Bool) and compared with yellow-paper definitions; symbolic results are discharged by SMT against independent specifications; totality/promptness by watchdog.",
    "trusts z3 and the independently written reference semantics in lib/refevm.py / checks/c06.py", "DESIGN.md §3 and §11.2 C06", "bvspec")
add("C07", "exploration", "reference-model monitor (flat cell array) + class invariant after every ByteVec operation; exhaustive short histories + guided random long ones",
    "Operation histories on ByteVec (exhaustive up to length 3 over a boundary grid, random up to 60) are mirrored on a flat byte-cell model; every read API is compared after every operation under random valuations of symbols, copies are re-read after later writes, and the chunk invariant is asserted (icontract) after every public method.",
    "trusts the flat model in checks/c07.py; symbolic equality is decided by evaluation under random valuations (+ z3 on a sample)", "DESIGN.md §3 and §11.2 C07", "bytemodel")
add("C08", "exploration", "differential storage monitor: generated location expressions over colliding key domains vs reference EVM with real keccak",
    "Programs of SSTORE/SLOAD/TSTORE/TLOAD over generated Solidity-layout location expressions with symbolic keys are run symbolically; for valuations from small colliding domains the loaded values must equal the reference EVM's, in both storage layouts, incl. transient storage over two transactions.",
    "trusts reference EVM, pysha3 keccak, z3 model evaluation", "DESIGN.md §3 and §11.2 C08", "symrun+refevm+pathmodel")
add("C09", "exploration", "differential call-tree monitor with conservation and static-context checks",
    "Generated call trees (all six frame kinds, every outcome) are run symbolically and on the reference EVM; flags, return data, storage, transient storage, balances and code after the tree must agree; balance conservation is checked.",
    "as C01", "DESIGN.md §3 and §11.2 C09", "symrun+refevm+pathmodel")
add("C10", "exploration", "ground-truth-by-construction monitor: planted deep failures vs captured warnings / status",
    "Generated tests with loops whose trip count depends on inputs and planted failures behind k iterations; a clean PASS without loop/width/depth warning is judged against the reference EVM; concrete loops must never be cut; regular, setUp and invariant modes.",
    "trusts reference EVM and the log capture of the 'halmos' logger", "DESIGN.md §3 and §11.2 C10", "artifacts+refevm")
add("C11", "exploration", "SMT equivalence monitor: dumped query text re-parsed by z3 and compared with the live path conditions; refinement compared with exact definitions",
    "Every query written by halmos in the generated runs is re-parsed in a fresh z3 context and shown equivalent to the conjunction of the path's conditions (both directions unsat); refined queries must equal the conditions with abstractions replaced by exact EVM operations.",
    "trusts z3's parser and solver", "DESIGN.md §3 and §11.2 C11", "artifacts+symrun")
add("C12", "exploration", "independent ABI decoder over generated type trees and every candidate size tuple",
    "mk_calldata output for generated signatures is decoded by an independent strict ABI decoder under every size tuple; leaves must be distinct unconstrained symbols; unsupported types must raise.",
    "trusts the independent ABI codec in lib/abi.py and z3 model evaluation", "DESIGN.md §3 and §11.2 C12", "abi")
add("C13", "exploration", "selector-table audit + SMT validity of handler conditions vs per-signature spec + dynamic nested-call runs",
    "Each vm.assert* selector is matched to the forge-std signature hashing to it; the handler's condition is compared by SMT with the specification of that signature; vm.assume/assert programs at nesting depth 0-3 are compared with the reference Foundry model.",
    "trusts the generated forge-std signature list, keccak, z3", "DESIGN.md §3 and §11.2 C13", "symrun+refevm")
add("C14", "exploration", "history monitor: generated prank/cheatcode histories vs a Foundry reference model; SMT checks on fresh symbols",
    "Bounded histories of prank-family calls, calls, creations and state cheatcodes are run symbolically and compared with a reference Foundry layer; created symbols are checked for width/encoding/range by SMT and for pairwise independence by satisfiability of all corner combinations (across frames, forks and two transactions).",
    "only unambiguous Foundry semantics are judged", "DESIGN.md §3 and §11.2 C14", "symrun+refevm")
add("C15", "exploration", "brute-force call-sequence oracle on the reference EVM vs halmos invariant verdict; state-digest and filter monitors",
    "Generated stateful targets are brute-forced over bounded call sequences on the reference EVM; a breaking sequence must yield FAIL, every FAIL's call sequence must replay, state merging is checked with an independent serialisation and target/exclude filters against an independent resolution.",
    "one-directional oracle; small argument domains", "DESIGN.md §3 and §11.2 C15", "artifacts+refevm")
add("C16", "exploration", "online soundness monitor on check_unsat_cores (every cache hit re-solved) + cache on/off differential under gc pressure",
    "Every cache hit observed is re-decided by a real solver; verdicts and counterexample sets with the cache on and off must be equal, with garbage collection forced between paths.",
    "trusts z3 for re-solving", "DESIGN.md §3 and §11.2 C16", "artifacts")
add("C17", "exploration", "controlled-scheduler exploration of processes.py with simulated processes + real-subprocess stress",
    "Thread schedules (seeded random, PCT, bounded-preemption enumeration) over submit/exit/timeout/cancel/shutdown with simulated processes; exactly-once delivery, bounded return of result(), timeout never unsat, nothing alive after shutdown.",
    "yield points are Python line events of processes.py; C-level interleavings only stressed", "DESIGN.md §3 and §11.2 C17", "sched")
add("C18", "exploration", "reference-model monitor for config precedence + grammar-based round-trip fuzzing + scoping through real entry points",
    "Random layer stacks are resolved by Config and by a 10-line reference; structured values are round-tripped through unparse/parse; malformed strings must be rejected; annotations are checked for scope through run_contract.",
    "trusts the reference resolver and recognisers written from the documentation", "DESIGN.md §3 and §11.2 C18", "cfgmodel")
add("C19", "exploration", "independent linear-sweep decoder vs Contract decode/jumpdest/slice; exhaustive over a class-preserving alphabet",
    "All byte strings up to length 4 (quick) / 6 (thorough) over a 10-byte alphabet covering every decoding class, random strings to 4 KiB and concrete/symbolic splits are decoded by Contract and by an independent decoder; jump programs run through SEVM vs the reference EVM.",
    "trusts the independent decoder", "DESIGN.md §3 and §11.2 C19", "decoder")
add("C20", "exploration", "order/subset/repetition differential over run_contract + setUp-state immutability monitor + sibling-path re-execution",
    "Results of run_contract are compared across orders, subsets, duplicates, repetitions and uid seeds; the post-setUp state is serialised before/after each test; each yielded path is re-executed alone with its model as concrete input.",
    "normalisation strips uid suffixes only", "DESIGN.md §3 and §11.2 C20", "artifacts+symrun")

ENGINES = [
    ("report", "lib/report.py", "evidence/violation/known-finding plumbing and kill-able worker pool", "all"),
    ("refevm", "lib/refevm.py", "independent concrete EVM (gas-free Cancun subset) + Foundry cheatcode layer", "C01 C02 C03 C04 C08 C09 C10 C13 C14 C15 C19 C20"),
    ("asm", "lib/asm.py", "assembler with labels", "C01 C02 C06 C08 C09 C10 C13 C14 C19 C20"),
    ("gen", "lib/gen.py", "typed EVM program generators", "C01 C02 C08 C09 C20"),
    ("symrun", "lib/symrun.py", "harness around SEVM.run with monitors and fault injection", "C01 C02 C06 C08 C09 C13 C14 C19 C20"),
    ("pathmodel", "lib/pathmodel.py", "fold-first decision of 'path admits input' and end-state evaluation", "C01 C02 C08 C09 C13 C14 C20"),
    ("artifacts", "lib/artifacts.py", "hand-assembled forge-style artifacts for run_contract/_main", "C03 C04 C05 C10 C11 C15 C16 C18 C20"),
    ("abi", "lib/abi.py", "independent ABI codec", "C03 C04 C12 C13 C15"),
    ("stubsolver", "lib/stubsolver.sh", "scripted solver executable", "C05 C16 C17"),
    ("sched", "lib/sched.py", "deterministic thread scheduler over processes.py", "C17"),
]


def main():
    ready = READY
    if ready is None:
        try:
            ready = set(open(os.path.join(VERIF, "tools", "READY")).read().split())
        except FileNotFoundError:
            ready = set()
    na_reasons = {}
    try:
        na_reasons = json.load(open(os.path.join(VERIF, "tools", "not_applicable.json")))
    except FileNotFoundError:
        pass
    checks = []
    na = []
    for pid, c in sorted(CHECKS.items()):
        script = os.path.join(VERIF, "checks", pid.lower() + ".py")
        if pid in ready and os.path.exists(script):
            checks.append(
                {
                    "property_id": pid,
                    "quick_cmd": f"./check {pid} --tier quick",
                    "thorough_cmd": f"./check {pid} --tier thorough",
                    "evidence_file": f"evidence/{pid}.json",
                    "replay_cmd_template": f"./check {pid} --replay {{path}}",
                    "engine": c["engine"],
                    "level_claimed": {"category": c["level"], "text": c["text"], "design_ref": c["ref"]},
                    "level_note": c["note"],
                    "technique": "runtime monitoring: " + c["technique"],
                }
            )
        else:
            na.append({"property_id": pid, "reason": na_reasons.get(pid, "check not built yet (work in progress); runtime monitoring applies, see DESIGN.md §3")})
    hooks = json.load(open(os.path.join(VERIF, "tools", "hooks.json")))
    m = {
        "version": 1,
        "setup_cmd": "./setup.sh",
        "hooks": hooks,
        "engines": [
            {"name": n, "path": p, "kind_free_text": k, "serves_properties": s.split() if s != "all" else sorted(CHECKS)}
            for n, p, k, s in ENGINES
            if os.path.exists(os.path.join(VERIF, p))
        ],
        "checks": checks,
        "not_applicable": na,
        "notes": "One technique family: runtime monitoring of the real halmos code under generated hostile workloads with independent oracles. Exit 0 = held on everything explored, 1 = VIOLATION, 2 = INCONCLUSIVE (deciding monitor not reached). Known findings: known_findings.json.",
    }
    out = os.path.join(VERIF, "MANIFEST.json")
    with open(out, "w") as f:
        json.dump(m, f, indent=1)
        f.write("\n")
    try:
        import jsonschema

        jsonschema.validate(m, json.load(open("/root/.vp/MANIFEST.schema.json")))
        print("MANIFEST.json valid;", len(checks), "checks,", len(na), "not_applicable")
    except ImportError:
        print("jsonschema not available; wrote MANIFEST.json without validation")


if __name__ == "__main__":
    main()
