#!/bin/bash
# usage: tools/trypatch.sh <check id> <patch.diff> [extra check args]  — runs a check against a scratch worktree of /repo HEAD with the patch applied (never touches /repo's working tree)
id="$1"; patch="$(readlink -f "$2")"; shift; shift
wt=/root/scratch/wt/tp-$$
mkdir -p /root/scratch/wt
git -C /repo worktree add -q --detach "$wt" HEAD || exit 3
trap 'git -C /repo worktree remove --force "$wt"; git -C /repo worktree prune' EXIT
git -C "$wt" apply "$patch" || { echo "patch does not apply"; exit 4; }
cd "$(dirname "$0")/.."
VERIF_REPO="$wt" VERIF_REPLAY_DIR=/root/scratch/tp-replays ./check "$id" --tier quick --no-evidence "$@" 2>&1 | grep -E "^VIOLATION|^  what|^HELD|^INCONCLUSIVE|^KNOWN|^\[C" | cut -c1-260 | sort | uniq -c | sort -rn | head -12
