#!/usr/bin/env python3
"""ad-hoc sensitivity test: tools/trymut.py <check id> <file under /repo> <old text> <new text>
replaces the first occurrence, runs the quick check without evidence, restores /repo (git checkout)."""
import os, subprocess, sys, collections
# TRYMUT_REPO: a scratch worktree of /repo (so that /repo itself is never touched while other runs use it); <file> is relative to it
REPO = os.environ.get("TRYMUT_REPO", "/repo")
cid, path, old, new = sys.argv[1:5]
if not os.path.isabs(path):
    path = os.path.join(REPO, path)
s = open(path).read()
if old not in s:
    print("pattern not found"); sys.exit(2)
open(path, "w").write(s.replace(old, new, 1))
try:
    r = subprocess.run(["./check", cid, "--tier", "quick", "--no-evidence"], cwd="/verif", capture_output=True, text=True, env={**os.environ, "VERIF_REPLAY_DIR": "/tmp/trymut-replays", "VERIF_REPO": REPO})
    c = collections.Counter(l.strip()[:160] for l in r.stdout.splitlines() if l.strip().startswith("what:") or l.startswith(("HELD", "INCONCLUSIVE")))
    print(f"rc={r.returncode}", dict(c))
finally:
    subprocess.run(["git", "-C", REPO, "checkout", "--", "."])
