#!/usr/bin/env python3
"""Confirm a seeded defect and run checks against it.

usage: tools/seedcheck.py <name> <property> <patch.diff> <demo.py> [--checks C01,C02] [--tier quick] [--needs "..."] [--skip-confirm]

1. confirmation in a scratch worktree of /repo HEAD (outside /repo and /verif): patch applies, the
   repository's own test suite still gives the baseline result, the demo fails with the patch and
   passes without it;
2. the patch is applied to /repo itself, the named checks are run with --no-evidence, and the patch is
   undone straight afterwards (git checkout -- .);
3. everything is recorded under /verif/seeded/<name>/ (patch.diff, demo.py, meta.json)."""
import argparse
import json
import os
import shutil
import subprocess
import sys
import time

VERIF = os.path.dirname(os.path.dirname(os.path.abspath(__file__)))
REPO = "/repo"
PY = "/venv/bin/python"


def sh(cmd, cwd=None, env=None, timeout=3600):
    e = dict(os.environ)
    if env:
        e.update(env)
    p = subprocess.run(cmd, shell=True, cwd=cwd, env=e, capture_output=True, text=True, timeout=timeout)
    return p.returncode, (p.stdout + p.stderr)


def main():
    ap = argparse.ArgumentParser()
    ap.add_argument("name")
    ap.add_argument("prop")
    ap.add_argument("patch")
    ap.add_argument("demo")
    ap.add_argument("--scratch", action="store_true", help="apply the patch to a scratch worktree of /repo HEAD and point the checks at it (VERIF_REPO) instead of patching /repo itself; used while other runs read /repo")
    ap.add_argument("--checks", default=None)
    ap.add_argument("--tier", default="quick")
    ap.add_argument("--needs", default="")
    ap.add_argument("--skip-confirm", action="store_true")
    ap.add_argument("--seed", default="0")
    a = ap.parse_args()
    checks = (a.checks or a.prop).split(",")
    out = os.path.join(VERIF, "seeded", a.name)
    os.makedirs(out, exist_ok=True)
    meta_path = os.path.join(out, "meta.json")
    meta = json.load(open(meta_path)) if os.path.exists(meta_path) else {}
    meta.update({"name": a.name, "breaks_property": a.prop})
    if a.needs:
        meta["needs_to_manifest"] = a.needs
    if os.path.abspath(a.patch) != os.path.join(out, "patch.diff"):
        shutil.copy(a.patch, os.path.join(out, "patch.diff"))
    if os.path.abspath(a.demo) != os.path.join(out, "demo.py"):
        shutil.copy(a.demo, os.path.join(out, "demo.py"))
    patch = os.path.join(out, "patch.diff")
    demo = os.path.join(out, "demo.py")
    head = sh("git rev-parse --short HEAD", cwd=REPO)[1].strip()
    rc, st = sh("git status --porcelain", cwd=REPO)
    if st.strip() and not a.scratch:
        print("refusing: /repo has uncommitted changes:\n" + st)
        sys.exit(3)

    if not a.skip_confirm:
        wt = f"/tmp/seedcheck-{a.name}-{os.getpid()}"
        sh(f"git worktree remove --force {wt}", cwd=REPO)
        rc, o = sh(f"git worktree add -q --detach {wt} HEAD", cwd=REPO)
        assert rc == 0, o
        try:
            rc, o = sh(f"git apply {patch}", cwd=wt)
            if rc != 0:
                rc, o = sh(f"git apply --3way {patch}", cwd=wt)
            conf = {"repo_head": head, "patch_applies": rc == 0}
            if rc != 0:
                conf["apply_error"] = o[-500:]
                meta["confirmation"] = conf
                print("PATCH DOES NOT APPLY", o[-400:])
                json.dump(meta, open(meta_path, "w"), indent=1)
                sys.exit(4)
            # refresh the stored patch against the current HEAD
            rc, d = sh("git diff", cwd=wt)
            open(patch, "w").write(d)
            env = {"PYTHONPATH": f"{wt}/src"}
            rc, o = sh(f"{PY} -m pytest -q -p no:cacheprovider -n 8 --timeout=900 2>&1 | tail -3", cwd=wt, env=env, timeout=1800)
            conf["suite_with_patch"] = o.strip().splitlines()[-1] if o.strip() else ""
            conf["suite_unchanged"] = "306 passed" in o and "8 failed" in o
            rc1, o1 = sh(f"timeout 900 {PY} {demo}", cwd=out, env=env, timeout=1000)
            conf["demo_with_patch_exit"] = rc1
            conf["demo_with_patch_tail"] = o1[-400:]
            sh("git checkout -- .", cwd=wt)
            rc0, o0 = sh(f"timeout 900 {PY} {demo}", cwd=out, env=env, timeout=1000)
            conf["demo_without_patch_exit"] = rc0
            conf["confirmed"] = bool(conf["suite_unchanged"] and rc1 != 0 and rc0 == 0)
            meta["confirmation"] = conf
            print("confirmation:", json.dumps({k: v for k, v in conf.items() if not k.endswith("tail")}))
        finally:
            sh(f"git worktree remove --force {wt}", cwd=REPO)
            shutil.rmtree(wt, ignore_errors=True)
            sh("git worktree prune", cwd=REPO)

    # run the checks against /repo with the patch applied (or against a scratch worktree of the same HEAD with --scratch)
    target = REPO
    if a.scratch:
        target = f"/tmp/seedcheck-run-{a.name}-{os.getpid()}"
        sh(f"git worktree remove --force {target}", cwd=REPO)
        rc, o = sh(f"git worktree add -q --detach {target} HEAD", cwd=REPO)
        assert rc == 0, o
    rc, o = sh(f"git apply {patch}", cwd=target)
    if rc != 0:
        print("cannot apply to", target, o[-300:])
        sys.exit(4)
    results = meta.setdefault("checks", {})
    try:
        for c in checks:
            t0 = time.time()
            rc, o = sh(f"./check {c} --tier {a.tier} --no-evidence", cwd=VERIF, env={"VERIF_SEED": a.seed, "VERIF_REPLAY_DIR": "/tmp/seedcheck-replays", "VERIF_REPO": target}, timeout=7200)
            vio = [l for l in o.splitlines() if l.startswith("VIOLATION")]
            what = [l.strip() for l in o.splitlines() if l.strip().startswith("what:")]
            verdict = "caught" if rc == 1 and vio else ("inconclusive" if rc == 2 else ("missed" if rc == 0 else f"exit{rc}"))
            results[f"{c}:{a.tier}:seed{a.seed}"] = {"verdict": verdict, "exit": rc, "violations": len(vio), "first_what": what[:3], "wall_s": round(time.time() - t0, 1), "repo_head": head, "applied_to": "scratch worktree of HEAD" if a.scratch else "/repo"}
            print(f"{a.name}: check {c} ({a.tier}) -> {verdict} rc={rc} {what[:2]}")
            if rc not in (0, 1, 2):
                print(o[-1500:])
    finally:
        sh("git checkout -- .", cwd=target)
        if a.scratch:
            sh(f"git worktree remove --force {target}", cwd=REPO)
            shutil.rmtree(target, ignore_errors=True)
            sh("git worktree prune", cwd=REPO)
        rc, st = sh("git status --porcelain", cwd=REPO)
        assert not st.strip(), st
    json.dump(meta, open(meta_path, "w"), indent=1)


if __name__ == "__main__":
    main()
