#!/bin/bash
# offline setup: install monitor libraries from the wheelhouse into the git-ignored .deps and byte-compile the harness
cd "$(dirname "$0")"
/venv/bin/python -m pip install -q --no-index --find-links /opt/veriftools/wheels --target .deps icontract >/dev/null 2>&1 || echo "warning: icontract not installed (C07 falls back to explicit invariant calls)"
/venv/bin/python -m compileall -q lib checks >/dev/null 2>&1 || true
mkdir -p evidence replays .work
echo "setup done"
